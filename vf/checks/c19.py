"""C19 -- output files are complete, correctly attributed and never clobbered.

Monitors: (M5) one ``sys.addaudithook`` file-system monitor per worker records every
``open`` with a writing mode, ``os.mkdir/rmdir/remove/rename/truncate`` and ``shutil.*`` whose
path lies below the watched parent folder, each with the pre-existence of its target at event
time; before/after listings of the parent with sha1 content hashes; a probe model (``fill``)
that writes known per-run pseudo-random content into all five buckets and records what the
detector really held at the end of every run.  Oracle: the run directory must be new (not in
the before-listing, created by a mkdir of this run on a path that did not exist, shared with
nobody); nothing that existed before may be opened for writing / renamed / removed / changed;
every entry of the ``/output`` node of the result, resolved through its own coordinate labels,
must name an existing file whose content is the bucket the labelled run held (bit-identical
for npy and FITS); every requested (bucket, format, run) must have exactly one entry.
"""
from __future__ import annotations

import datetime as _dt
import hashlib
import itertools
import json
import os
import re
import subprocess
import sys
import threading
import time
import traceback

import numpy as np

from vf import build, probes

ID = "C19"
LEVEL = "exploration"
REGISTER = True
TECHNIQUE = ("runtime monitoring: sys.addaudithook file-system event monitor + before/after content-hash listings + "
             "probe-written per-run bucket content read back from the files named by the result's /output node")
RULE = ("random save lists (1-4 of the five buckets x fits/npy plus at most one of jpg/jpeg/png/txt/csv/hdf, given as "
        "single-bucket mappings, multi-bucket mappings or one bucket split over two mappings) run through exposure "
        "(1-3 readouts, flat/hierarchical, Python/YAML objects, 1-3 starts into one parent, same or fresh mode object), "
        "sequential and dask observation (product/custom/sequential spaces over 2-3 probe parameters, >=3 runs, three "
        "dask schedulers), N=2..16 starts from threads behind a barrier (full runs and bare create_output_folder) and "
        "from separate processes, pipelines that are deterministic or hold a stochastic probe (content drawn from numpy's "
        "global generator) run without or with a pipeline seed, and the public writer API (to_*, Outputs.save_to_file) against colliding names; the "
        "clock of create_output_directory is frozen in most cases and parents are pre-populated with the directory and "
        "file names a run would use (learnt from a scratch start); non-trivial = >=2 starts/runs into one parent or "
        ">=2 requested files; distinct = distinct (kind, save list, space, schedule) signatures")
ASSUMPTIONS = [
    "a file name reported without a directory is taken relative to outputs.current_output_folder",
    "lossy/limited formats are compared as far as they allow: txt/csv to 1e-5 relative, jpg/jpeg by shape and by "
    "correlating best with the attributed run among all runs and buckets of the case, png of uint8 exactly",
    "files in the run directory that no result entry reports (copied YAML, logs, the unsuffixed files the sequential "
    "observation leaves behind) are not a violation; the metadata run of the dask path is only counted when it "
    "touches the run directory",
    "when a run was executed more than once with different content (stochastic pipeline without a seed, e.g. the metadata "
    "pass of the dask path), the run a reported file is attributed to is the execution whose buckets the result itself "
    "holds for the labelled run at its last readout; when the result does not tell, any execution of the run is accepted",
    "formats a path refuses (NotImplementedError, missing h5py, TypeError/ValueError of a writer) are recorded, not alarmed; "
    "a failing run whose save list holds only fits/npy is a violation",
    "audit events cover Python-level I/O (open, os.*, shutil.*); the content hashes cover everything else",
]
REQUIRED_COUNTERS = [
    "runs_exposure", "runs_obs_seq", "runs_obs_dask", "thread_batches", "proc_batches", "thread_starts", "proc_starts",
    "dirs_checked", "mkdir_events", "same_second_starts", "frozen_clock_effective",
    "entries_resolved", "combos_checked", "files_compared_exact", "files_compared_lossy", "fs_events", "write_events",
    "preexisting_files_hashed", "prepopulated_collisions", "writer_calls", "writer_collisions_checked", "probe_snapshots",
    "nonreproducible_runs", "entries_of_runs_executed_more_than_once", "entries_attributed_by_result_data", "runs_exposure_after_save_list_edit",
]
TIMEOUT = {"quick": 900, "thorough": 3600}
LEVEL_TEXT = ("Exploration by runtime monitoring: every start is executed by the real run_mode (or the real writer functions) "
              "below a watched parent folder; an audit-hook monitor and content-hash listings decide directory freshness and "
              "no-clobber, the files named by the result are read back and compared with what a probe recorded inside the run "
              "they are attributed to. Concurrency: 2-16 threads behind a barrier and 2-16 separate processes behind a file "
              "barrier with a frozen clock; mkdir collisions, retries and interleavings are reported. Held = on the executions observed.")
LEVEL_NOTE = ("Trusted: CPython audit events, numpy/astropy/PIL readers, the fill probe (public setters/getters), the "
              "monotonic clock only for interleaving statistics (never for a verdict).")

# Genuine defects this check reproduces and that are neither repaired nor listed in KNOWN_FINDINGS.json would be
# keyed here by mechanism prefix: they are counted (evidence key open_findings_reproduced) instead of raised unless
# VERIF_C19_STRICT=1.  The two found while writing the check were repaired in /repo (e6473e2: sequential
# observation reports every requested bucket/format; 5942972: to_txt/to_csv refuse existing files) and are hard checks.
OPEN_FINDINGS: dict = {}
STRICT = os.environ.get("VERIF_C19_STRICT", "") not in ("", "0")

BUCKETS = ("photon", "charge", "pixel", "signal", "image")
CORE_FORMATS = ("fits", "npy")
EXOTIC_FORMATS = ("jpg", "jpeg", "png", "txt", "csv", "hdf")
ALL_FORMATS = CORE_FORMATS + EXOTIC_FORMATS
FORMAT_DIMS = ("extension", "data_format", "format")
GROUP, MODEL = "charge_measurement", "fill"
KEY_A = f"pipeline.{GROUP}.{MODEL}.arguments.a"
KEY_B = f"pipeline.{GROUP}.{MODEL}.arguments.b"
KEY_T = "detector.environment.temperature"
SHORT = {KEY_A: "a", KEY_B: "b", KEY_T: "temperature"}
DEFAULTS = {"a": 1, "b": 2, "temperature": 300}


# =====================================================================================
# M5 -- file-system audit monitor
# =====================================================================================
_AUDITED = frozenset({"open", "os.mkdir", "os.rmdir", "os.remove", "os.rename", "os.truncate", "os.link", "os.symlink"})
_TWO_PATH = frozenset({"os.rename", "os.link", "os.symlink", "shutil.copyfile", "shutil.copymode", "shutil.copystat",
                       "shutil.copytree", "shutil.move"})


def _norm(p):
    if p is None or isinstance(p, int):
        return None
    p = os.fspath(p)
    if isinstance(p, bytes):
        p = os.fsdecode(p)
    return os.path.abspath(p)


def _open_class(mode, flags):
    """None for read-only opens, else write / append / update / create-excl."""
    if isinstance(mode, str):
        if "x" in mode:
            return "create-excl"
        if "w" in mode:
            return "write"
        if "a" in mode:
            return "append"
        if "+" in mode:
            return "update"
        return None
    if isinstance(flags, int):
        if flags & os.O_CREAT and flags & os.O_EXCL:
            return "create-excl"
        if flags & os.O_TRUNC:
            return "write"
        if flags & os.O_APPEND:
            return "append"
        if flags & os.O_ACCMODE in (os.O_WRONLY, os.O_RDWR):
            return "update"
    return None


class FsMonitor:
    """Audit hooks cannot be removed: the hook is a cheap filter on the mutable ``watched`` prefix."""

    def __init__(self):
        self._lock = threading.Lock()
        self._installed = False
        self.watched = None
        self.events: list = []
        self._seq = 0
        self.errors = 0
        self._tl = threading.local()

    def install(self):
        if not self._installed:
            sys.addaudithook(self._hook)
            self._installed = True

    def begin(self, prefix: str) -> str:
        root = os.path.realpath(prefix)
        with self._lock:
            self.events = []
            self.watched = root
        return root

    def end(self) -> list:
        with self._lock:
            self.watched = None
            evs, self.events = self.events, []
        return evs

    def note(self, ev: str, **kw) -> int:
        """Events of the probe share the sequence counter of the file-system events."""
        with self._lock:
            self._seq += 1
            rec = {"seq": self._seq, "ev": ev, "tid": threading.get_ident(), "t": time.monotonic_ns()}
            rec.update(kw)
            if self.watched is not None:
                self.events.append(rec)
            return self._seq

    def _hook(self, event, args):
        root = self.watched
        if root is None:
            return
        if event not in _AUDITED and event[:7] != "shutil.":
            return
        tl = self._tl
        if getattr(tl, "busy", False):
            return
        tl.busy = True
        try:
            self._record(event, args, root)
        except Exception:  # noqa: BLE001 - the monitor must never perturb the execution
            self.errors += 1
        finally:
            tl.busy = False

    def _record(self, event, args, root):
        if not args:
            return
        two = event in _TWO_PATH
        p0 = _norm(args[0])
        p1 = _norm(args[1]) if two and len(args) > 1 else None
        target = p1 if two else p0
        if target is None:
            return
        pre = root + os.sep
        if not any(p is not None and (p == root or p.startswith(pre)) for p in (p0, p1)):
            return
        rec = {"ev": event, "path": target}
        if event == "open":
            cls = _open_class(args[1] if len(args) > 1 else None, args[2] if len(args) > 2 else None)
            if cls is None:
                return
            rec["mode"] = cls
        rec["pre"] = os.path.lexists(target)
        rec["par"] = os.path.isdir(os.path.dirname(target))
        if two:
            rec["src"] = p0
            rec["src_pre"] = p0 is not None and os.path.lexists(p0)
        rec["tid"] = threading.get_ident()
        rec["t"] = time.monotonic_ns()
        with self._lock:
            self._seq += 1
            rec["seq"] = self._seq
            if self.watched is not None:
                self.events.append(rec)


MON = FsMonitor()


def modifications(e: dict) -> list:
    """(path, what) pairs an event changes (creation-only events give nothing)."""
    ev = e["ev"]
    if ev == "open":
        return [] if e["mode"] == "create-excl" else [(e["path"], "open-" + e["mode"])]
    if ev == "os.truncate":
        return [(e["path"], "truncate")]
    if ev == "os.remove":
        return [(e["path"], "remove")]
    if ev == "os.rmdir":
        return [(e["path"], "rmdir")]
    if ev in ("os.rename", "shutil.move"):
        out = [(e["path"], "rename-target")]
        if e.get("src"):
            out.append((e["src"], "rename-source"))
        return out
    if ev in ("shutil.copyfile", "shutil.copytree"):
        return [(e["path"], "copy-target")]
    if ev == "shutil.rmtree":
        return [(e["path"], "rmtree")]
    return []


def sha1_file(path: str) -> str:
    h = hashlib.sha1()
    with open(path, "rb") as fh:
        for block in iter(lambda: fh.read(1 << 16), b""):
            h.update(block)
    return h.hexdigest()


def listing(root: str) -> dict:
    dirs, files = set(), {}
    for dp, dn, fn in os.walk(root):
        rel = os.path.relpath(dp, root)
        for d in dn:
            dirs.add(os.path.normpath(os.path.join(rel, d)))
        for f in fn:
            p = os.path.join(dp, f)
            if os.path.islink(p):
                continue
            files[os.path.normpath(os.path.join(rel, f))] = sha1_file(p)
    return {"dirs": dirs, "files": files}


# =====================================================================================
# frozen clock for create_output_directory
# =====================================================================================
class FrozenClock:
    """Replaces the ``datetime`` name inside pyxel.outputs.outputs by a subclass whose now()/today()/utcnow()
    return a fixed instant (stamp=None: real clock)."""

    def __init__(self, stamp):
        self.stamp = stamp
        self.patched = False

    def __enter__(self):
        import pyxel.outputs.outputs as mod
        self.mod = mod
        self.old = mod.__dict__.get("datetime", None)
        if self.stamp is None:
            return self
        stamp = self.stamp

        class Frozen(_dt.datetime):
            @classmethod
            def now(cls, tz=None):
                return stamp if tz is None else stamp.replace(tzinfo=tz)

            @classmethod
            def today(cls):
                return stamp

            @classmethod
            def utcnow(cls):
                return stamp

        if isinstance(self.old, type) and issubclass(self.old, _dt.datetime):
            mod.datetime = Frozen
            self.patched = True
        elif self.old is _dt:
            class Shim:
                datetime = Frozen

                def __getattr__(self, name):
                    return getattr(_dt, name)
            mod.datetime = Shim()
            self.patched = True
        return self

    def __exit__(self, *exc):
        if self.patched:
            self.mod.datetime = self.old
        return False


def rand_stamp(rng):
    return _dt.datetime(rng.randint(1971, 2024), rng.randint(1, 12), rng.randint(1, 28), rng.randint(0, 23),
                        rng.randint(0, 59), rng.randint(0, 59))


# =====================================================================================
# probe model: known per-run content + end-of-step snapshot of what the detector held
# =====================================================================================
LOG: list = []
_KEEP: list = []
_LOCK = threading.Lock()


def content(shape, dtype, a, b, t, step, bucket, nonce=0) -> np.ndarray:
    key = (int(a), int(b), int(t), int(step), BUCKETS.index(bucket))
    return probes.gen_array(tuple(shape), dtype, key + ((int(nonce),) if nonce else ()))


def fill(detector, a=1, b=2, dtypes=None, stochastic=False):
    """stochastic: the content also depends on a draw from numpy's global generator, as the content of pyxel's own
    stochastic models does: without a pipeline seed no two executions of one run hold the same buckets."""
    nonce = int(np.random.randint(1, 2**31 - 1)) if stochastic else 0
    step = int(detector.pipeline_count)
    t = int(round(float(detector.environment.temperature)))
    a, b = int(round(float(a))), int(round(float(b)))
    shape = detector.geometry.shape
    dt = dtypes or {}
    seq = MON.note("probe", det=id(detector), step=step, key=[a, b, t])
    for name in BUCKETS:
        arr = content(shape, dt.get(name, "uint16" if name == "image" else "float64"), a, b, t, step, name, nonce)
        if name == "charge":
            detector.charge.add_charge_array(arr.astype(float))
        else:
            getattr(detector, name).array = arr
    snap = {name: np.array(getattr(detector, name).array, copy=True) for name in BUCKETS}
    with _LOCK:
        _KEEP.append(detector)
        LOG.append({"seq": seq, "tid": threading.get_ident(), "det": id(detector), "key": (a, b, t),
                    "step": step, "snap": snap})


def reset_log():
    with _LOCK:
        LOG.clear()
        _KEEP.clear()


def collect_snaps():
    """-> ({key: final snapshot of the first execution}, number of executed runs, keys); collect_execs() gives all."""
    with _LOCK:
        log = list(LOG)
    runs: dict = {}
    for ev in log:
        cur = runs.get(ev["det"])
        if cur is None or ev["step"] >= cur["step"]:
            runs[ev["det"]] = ev
    snaps: dict = {}
    for ev in runs.values():
        snaps.setdefault(ev["key"], ev["snap"])
    return snaps, len(runs), [ev["key"] for ev in runs.values()]


def collect_execs() -> dict:
    """-> {key: [final snapshot of every execution of that run, in the order they started]}."""
    with _LOCK:
        log = list(LOG)
    runs: dict = {}
    for ev in log:
        cur = runs.get(ev["det"])
        if cur is None or ev["step"] >= cur["step"]:
            runs[ev["det"]] = ev
    out: dict = {}
    for ev in sorted(runs.values(), key=lambda e: e["seq"]):
        out.setdefault(ev["key"], []).append(ev["snap"])
    return out


# =====================================================================================
# reporting context (also usable inside the child processes, where rec is a MiniRec)
# =====================================================================================
class MiniRec:
    """Recorder stand-in of the child processes: collected and replayed into the real recorder by the parent."""

    def __init__(self):
        self.counts: dict = {}
        self.sets: list = []
        self.viols: list = []

    def count(self, name, n=1):
        self.counts[name] = self.counts.get(name, 0) + n

    def observe(self, name, value):
        self.sets.append([name, value])

    def violation(self, mechanism, detail, case=None, index=None):
        self.viols.append([mechanism, str(detail)[:1500]])


class Ctx:
    def __init__(self, rec, case, index):
        self.rec, self.case, self.index = rec, case, index

    def count(self, name, n=1):
        self.rec.count(name, n)

    def observe(self, name, value):
        self.rec.observe(name, value)

    def viol(self, mech: str, detail: str):
        for prefix in OPEN_FINDINGS:
            if mech.startswith(prefix) and not STRICT:
                self.rec.count("open_finding_hits")
                self.rec.observe("open_findings", mech)
                return
        self.rec.violation(mech, detail, self.case, self.index)


def _real(p):
    return os.path.realpath(p) if p else p


def _under(path, d):
    return path == d or path.startswith(d + os.sep)


# =====================================================================================
# oracle 1: directory freshness, no sharing, no clobbering (events + hashes)
# =====================================================================================
def check_fs(ctx: Ctx, tag: str, parent: str, before: dict, after: dict, events: list, runs: list):
    """runs: [{'id', 'tid' (or None), 'dir' (run directory or None)}]; events of one window on `parent`."""
    def rel(p):
        return os.path.normpath(os.path.relpath(p, parent))

    # -- content hashes of everything that existed before
    for f, h in before["files"].items():
        ctx.count("preexisting_files_hashed")
        if f not in after["files"]:
            ctx.viol(f"C19:{tag}:pre-existing-file-removed", f"'{f}' existed before the run and is gone")
        elif after["files"][f] != h:
            ctx.viol(f"C19:{tag}:pre-existing-file-content-changed", f"content hash of '{f}' changed during the run")
    for d in before["dirs"]:
        if d not in after["dirs"]:
            ctx.viol(f"C19:{tag}:pre-existing-directory-removed", f"directory '{d}' existed before the run and is gone")

    fs = [e for e in events if e["ev"] != "probe"]
    for e in fs:
        e["path"] = _real(e["path"])
        if e.get("src"):
            e["src"] = _real(e["src"])
    ctx.count("fs_events", len(fs))

    # -- events on paths that existed before the run
    for e in fs:
        for path, what in modifications(e):
            if not _under(path, parent):
                continue
            r = rel(path)
            hit = r in before["files"] or r in before["dirs"]
            if what == "rmtree" and not hit:
                hit = any(_under(os.path.join(parent, x), path) for x in list(before["files"]) + list(before["dirs"]))
            if hit:
                ctx.viol(f"C19:{tag}:pre-existing-path:{what}",
                         f"{e['ev']} ({what}) on '{r}', which existed before the run (existed at event time: {e['pre']})")

    # -- run directories
    by_tid = {run["tid"]: run for run in runs if run.get("tid") is not None}
    single = runs[0] if len(runs) == 1 else None

    def owner(e):
        run = by_tid.get(e["tid"])
        return run if run is not None else single

    mk = [e for e in fs if e["ev"] == "os.mkdir"]
    ctx.count("mkdir_events", len(mk))
    shared: dict = {}
    for run in runs:
        d = _real(run["dir"])
        run["dir"] = d
        if d is None:
            continue
        ctx.count("dirs_checked")
        shared.setdefault(d, []).append(run["id"])
        if not _under(d, parent):
            ctx.count("run_directory_outside_watched_parent")
            continue
        r = rel(d)
        if r in before["dirs"] or r in before["files"]:
            ctx.viol(f"C19:{tag}:run-directory-existed-before-the-run", f"run {run['id']} writes into '{r}', present before it started")
        mine = [e for e in mk if e["path"] == d and owner(e) is run]
        if not mine:
            ctx.viol(f"C19:{tag}:run-directory-not-created-by-this-run",
                     f"run {run['id']} uses '{r}' but no mkdir of that path was issued by it ({len(mk)} mkdir events in the window)")
        elif any(e["pre"] for e in mine):
            ctx.viol(f"C19:{tag}:run-directory-existed-when-created",
                     f"run {run['id']} adopted '{r}' although it already existed when the run tried to create it")
        if not os.path.isdir(d):
            ctx.viol(f"C19:{tag}:run-directory-missing-after-the-run", f"'{r}' is not a directory after the run")
        # statistics: attempts on sibling names that did not become this run's directory
        sib = [e for e in mk if owner(e) is run and os.path.dirname(e["path"]) == os.path.dirname(d)]
        others = [e for e in sib if e["path"] != d]
        ctx.count("mkdir_attempts", len(sib))
        ctx.count("mkdir_retries", len(others))
        ctx.count("mkdir_collisions_with_existing", sum(1 for e in others if e["pre"]))
        ctx.count("mkdir_races_lost", sum(1 for e in others if not e["pre"] and e["par"]))
        ctx.observe("retries_per_start", len(others))
    for d, ids in shared.items():
        if len(ids) > 1:
            ctx.viol(f"C19:{tag}:two-runs-share-one-directory", f"runs {ids} all write into '{rel(d)}'")

    # -- where files are written, and rewrites across runs
    run_dirs = [run["dir"] for run in runs if run["dir"]]
    current: dict = {}
    creator: dict = {}
    for e in sorted(events, key=lambda x: x["seq"]):
        if e["ev"] == "probe":
            current[e["tid"]] = e["det"]
            continue
        for path, what in modifications(e):
            if not (what.startswith("open") or what in ("rename-target", "copy-target")):
                continue
            if not _under(path, parent):
                continue
            ctx.count("write_events")
            own = by_tid.get(e["tid"])
            allowed = [own["dir"]] if own is not None and own["dir"] else run_dirs
            if allowed and not any(_under(path, d) for d in allowed):
                ctx.viol(f"C19:{tag}:file-written-outside-the-run-directory",
                         f"{e['ev']} on '{rel(path)}' but the run directory is {[rel(d) for d in allowed]}")
            who = (e["tid"] if own is not None else None, current.get(e["tid"]))
            if e["pre"] and rel(path) not in before["files"]:
                prev = creator.get(path)
                if prev is not None and prev != who:
                    ctx.viol(f"C19:{tag}:file-of-another-run-rewritten",
                             f"'{rel(path)}' was written during one run and opened for writing ({what}) again during another run")
                else:
                    ctx.count("own_file_reopened")
            creator.setdefault(path, who)
    return fs


# =====================================================================================
# oracle 2: the /output node -- complete, existing, right content
# =====================================================================================
def requested(save: list) -> list:
    """[(bucket, fmt, mapping index, key position)] in request order."""
    out = []
    for mi, dct in enumerate(save):
        for ki, (name, fmts) in enumerate(dct.items()):
            b = name.removeprefix("detector.").removesuffix(".array")
            for f in fmts:
                out.append((b, f, mi, ki))
    return out


def reported_entries(tree, run_dir):
    """-> (entries [{bucket, fmt, assign, file, path}], problems [str]) from the result's own labels."""
    entries, problems = [], []
    try:
        node = tree["/output"]
    except KeyError:
        return entries, ["the result has no /output node"]
    for bucket, leaf in node.children.items():
        if "filename" not in leaf.data_vars:
            problems.append(f"/output/{bucket} has no 'filename' variable")
            continue
        da = leaf["filename"]
        fdim = next((d for d in da.dims if d in FORMAT_DIMS), None)
        if fdim is None:
            fdim = next((d for d in da.dims if d in da.coords and da.coords[d].dtype.kind in "UOT"
                         and all(str(v) in ALL_FORMATS for v in da.coords[d].values)), None)
        other = [d for d in da.dims if d != fdim]
        for idx in itertools.product(*[range(da.sizes[d]) for d in other]):
            sub = da.isel(dict(zip(other, idx)))
            assign = {}
            for name in DEFAULTS:
                if name in sub.coords and sub.coords[name].ndim == 0:
                    try:
                        assign[name] = int(round(float(sub.coords[name].values)))
                    except (TypeError, ValueError):
                        problems.append(f"/output/{bucket}: label {name}={sub.coords[name].values!r}")
            vals = np.atleast_1d(np.asarray(sub.values, dtype=object))
            fmts = [str(v) for v in np.atleast_1d(sub.coords[fdim].values)] if fdim else [None] * len(vals)
            for fmt, val in zip(fmts, vals):
                fname = "" if val is None else str(val)
                if fmt is None:
                    fmt = os.path.splitext(fname)[1].lstrip(".")
                path = fname if os.path.isabs(fname) else (os.path.join(run_dir, fname) if run_dir else fname)
                entries.append({"bucket": bucket, "fmt": fmt, "assign": assign, "file": fname,
                                "path": os.path.realpath(path) if fname else ""})
    return entries, problems


def _as2d(img):
    arr = np.asarray(img)
    if arr.ndim == 3:
        arr = arr[..., 0]
    return arr


def _corr(x, y):
    x = np.asarray(x, dtype=float).ravel()
    y = np.asarray(y, dtype=float).ravel()
    if x.size != y.size or x.size < 4 or np.ptp(x) == 0 or np.ptp(y) == 0:
        return None
    return float(np.corrcoef(x, y)[0, 1])


def _parse_text(path):
    rows = []
    with open(path) as fh:
        for line in fh:
            toks = [t for t in re.split(r"[,\s|;]+", line.strip()) if t]
            if toks:
                rows.append([float(t) for t in toks])
    return np.array(rows, dtype=float)


def compare_file(path: str, fmt: str, want: np.ndarray, candidates=()):
    """-> (verdict 'exact'|'lossy'|'unverifiable'|'bad', detail)."""
    try:
        if fmt == "npy":
            got = np.load(path, allow_pickle=False)
        elif fmt == "fits":
            from astropy.io import fits
            with fits.open(path) as hdul:
                got = np.array(hdul[0].data)
        elif fmt in ("jpg", "jpeg", "png"):
            from PIL import Image
            with Image.open(path) as im:
                got = _as2d(im)
        elif fmt == "txt":
            got = _parse_text(path)
        elif fmt == "csv":
            import pandas as pd
            got = pd.read_csv(path, index_col=0).to_numpy(dtype=float)
            if got.shape != want.shape:
                got = _parse_text(path)
        else:
            return "unverifiable", f"no reader for '{fmt}'"
    except Exception as exc:  # noqa: BLE001
        return "bad", f"cannot be read back as {fmt}: {type(exc).__name__}: {exc}"
    if got.shape != want.shape:
        return "bad", f"shape {got.shape} instead of {want.shape}"
    if fmt in ("npy", "fits") or (fmt == "png" and want.dtype == np.uint8):
        if got.dtype.kind != want.dtype.kind or got.dtype.itemsize != want.dtype.itemsize:
            return "bad", f"dtype {got.dtype} instead of {want.dtype}: not bit-identical"
        if np.ascontiguousarray(got).astype(want.dtype).tobytes() != np.ascontiguousarray(want).tobytes():
            return "bad", f"values differ from the bucket ({int(np.sum(got != want))} of {want.size} elements)"
        return "exact", ""
    if fmt in ("txt", "csv"):
        w = want.astype(float)
        if not np.allclose(got, w, rtol=1e-5, atol=1e-8 * max(1.0, float(np.max(np.abs(w))))):
            return "bad", f"values differ from the bucket beyond the text precision (max rel diff {float(np.max(np.abs(got - w) / np.maximum(np.abs(w), 1e-300))):.3g})"
        return "lossy", ""
    # image formats: monotone rescaling + lossy compression -> compare by correlation among candidates
    r = _corr(got, want)
    if r is None:
        return "unverifiable", "constant image"
    best_other = max([c for c in (_corr(got, o) for o in candidates if o.shape == want.shape) if c is not None], default=-1.0)
    if r < 0.5 or best_other > r + 0.05:
        return "bad", f"picture correlates {r:.3f} with the attributed bucket but {best_other:.3f} with another run/bucket"
    return "lossy", ""


def result_run_data(tree, base=None, single_key=None) -> dict:
    """{(key, bucket): [array the result itself holds for that run at its last readout]}, resolved through the result's
    own coordinate labels like the entries of /output; {} when the result carries no bucket data in a known layout."""
    out: dict = {}
    try:
        for node in tree.subtree:
            for bucket in BUCKETS:
                if bucket not in node.data_vars:
                    continue
                da = node[bucket]
                if not {"y", "x"} <= set(da.dims):
                    continue
                other = [d for d in da.dims if d not in ("time", "y", "x")]
                for idx in itertools.product(*[range(da.sizes[d]) for d in other]):
                    sub = da.isel(dict(zip(other, idx)))
                    full = dict(DEFAULTS)
                    if base is None and single_key is not None:
                        full.update(dict(zip(("a", "b", "temperature"), single_key)))
                    full.update(base or {})
                    for name in DEFAULTS:
                        if name in sub.coords and sub.coords[name].ndim == 0:
                            full[name] = int(round(float(sub.coords[name].values)))
                    if "time" in sub.dims:
                        sub = sub.isel(time=-1)
                    out.setdefault(((full["a"], full["b"], full["temperature"]), bucket), []).append(np.asarray(sub.values))
    except Exception:  # noqa: BLE001 - an unknown layout: the attribution stays unresolved, nothing is decided on it
        return {}
    return out


def _same(x, y) -> bool:
    x, y = np.asarray(x), np.asarray(y)
    return x.shape == y.shape and bool(np.array_equal(x, y))


def check_result(ctx: Ctx, tag: str, tree, run_dir, save, expected_keys, snaps, seq_path=False, before=None, parent=None,
                 base=None, execs=None):
    """Every requested (bucket, format, run) has exactly one entry; every entry exists and holds the right content.

    execs ({key: [snapshot of every execution]}): when a run was executed more than once with different content (a
    pipeline that is not reproducible), the run a file is attributed to is the execution whose buckets the result holds."""
    entries, problems = reported_entries(tree, run_dir)
    execs = execs or {}
    held_cache: list = []
    attributed_exec: dict = {}
    for p in problems:
        ctx.viol(f"C19:{tag}:output-node-unreadable", p)
    req = requested(save)
    req_set = {(b, f) for b, f, _mi, _ki in req}
    counts: dict = {}
    by_path: dict = {}
    exp = set(expected_keys)
    for key in exp:
        if key not in snaps:
            ctx.viol(f"C19:{tag}:requested-run-never-executed", f"no probe snapshot for run {key}")
    all_arrays = [(k, b, sn[b]) for k in snaps for sn in (execs.get(k) or [snaps[k]]) for b in BUCKETS]
    for en in entries:
        ctx.count("entries_resolved")
        full = dict(DEFAULTS)
        if base is None and len(expected_keys) == 1:  # a single run: nothing is swept, labels are not needed
            full.update(dict(zip(("a", "b", "temperature"), list(expected_keys)[0])))
        full.update(base or {})
        full.update(en["assign"])
        key = (full["a"], full["b"], full["temperature"])
        combo = (en["bucket"], en["fmt"], key)
        counts[combo] = counts.get(combo, 0) + 1
        if key not in exp:
            ctx.viol(f"C19:{tag}:entry-attributed-to-unrequested-run", f"/output/{en['bucket']} entry labelled {en['assign']} ({en['file']!r}) is no requested run")
            continue
        if (en["bucket"], en["fmt"]) not in req_set:
            ctx.viol(f"C19:{tag}:entry-for-unrequested-combination", f"{en['bucket']}.{en['fmt']} reported ({en['file']!r}) but not requested")
            continue
        if not en["file"] or not os.path.isfile(en["path"]):
            ctx.viol(f"C19:{tag}:reported-file-missing:{en['fmt']}", f"run {key}: reported file {en['file']!r} for {en['bucket']} does not exist")
            continue
        if en["path"] in by_path and by_path[en["path"]] != combo:
            ctx.viol(f"C19:{tag}:one-file-reported-for-several-combinations",
                     f"{en['file']!r} is reported for {by_path[en['path']]} and for {combo}")
        by_path.setdefault(en["path"], combo)
        if run_dir and not _under(en["path"], _real(run_dir)):
            ctx.viol(f"C19:{tag}:reported-file-outside-the-run-directory", f"{en['path']} is not below {run_dir}")
        if before is not None and parent and _under(en["path"], parent) and \
                os.path.normpath(os.path.relpath(en["path"], parent)) in before["files"]:
            ctx.viol(f"C19:{tag}:reported-file-existed-before-the-run", f"{en['file']!r} was there before the run started")
        if key not in snaps or en["bucket"] not in BUCKETS:
            continue
        want = snaps[key][en["bucket"]]
        versions: list = []
        for sn in execs.get(key) or []:
            if not any(_same(sn[en["bucket"]], v) for v in versions):
                versions.append(sn[en["bucket"]])
        if len(versions) > 1:
            # several executions of this run held different buckets: which one is in the result?
            ctx.count("entries_of_runs_executed_more_than_once")
            if key not in attributed_exec:
                if not held_cache:
                    held_cache.append(result_run_data(tree, base, list(expected_keys)[0] if len(expected_keys) == 1 else None))
                # the execution is a property of the run: every bucket the result holds for it may identify it
                cand = None
                for b in BUCKETS:
                    held = held_cache[0].get((key, b), [])
                    m = {i for i, sn in enumerate(execs[key]) if any(_same(sn[b], h) for h in held)}
                    if m:
                        cand = m if cand is None else (cand & m)
                attributed_exec[key] = next(iter(cand)) if cand is not None and len(cand) == 1 else None
                if attributed_exec[key] is None:
                    ctx.observe("attribution_unresolved_in", f"{tag}:{0 if cand is None else len(cand)} of "
                                                             f"{len(execs[key])} executions match the buckets the result holds")
            if attributed_exec[key] is not None:
                ctx.count("entries_attributed_by_result_data")
                want = execs[key][attributed_exec[key]][en["bucket"]]
            else:  # unresolved: any execution of the run is accepted
                ctx.count("entries_attribution_unresolved")
                want = next((v for v in versions if compare_file(en["path"], en["fmt"], v)[0] in ("exact", "lossy")), want)
        others = [arr for (k, b, arr) in all_arrays if not (k == key and b == en["bucket"]) or
                  (len(versions) > 1 and not _same(arr, want))]
        verdict, detail = compare_file(en["path"], en["fmt"], want, others)
        if verdict == "bad" and len(versions) > 1 and en["fmt"] in CORE_FORMATS and \
                any(compare_file(en["path"], en["fmt"], v)[0] == "exact" for v in versions if not _same(v, want)):
            ctx.viol(f"C19:{tag}:reported-file-holds-another-execution-of-its-run:{en['fmt']}",
                     f"run {key}: {en['file']!r} reported for bucket {en['bucket']} holds the bucket of another execution "
                     f"of that run ({len(versions)} executions with different content), not of the one the result holds: {detail}")
        elif verdict == "bad":
            holder = next((f"run {k} bucket {b}" for (k, b, arr) in all_arrays
                           if compare_file(en["path"], en["fmt"], arr)[0] in ("exact",)), None) if en["fmt"] in CORE_FORMATS else None
            ctx.viol(f"C19:{tag}:reported-file-content-differs:{en['fmt']}",
                     f"run {key}: {en['file']!r} reported for bucket {en['bucket']}: {detail}"
                     + (f"; it holds {holder}" if holder else ""))
        elif verdict == "exact":
            ctx.count("files_compared_exact")
            ctx.observe("formats_verified", en["fmt"])
        elif verdict == "lossy":
            ctx.count("files_compared_lossy")
            ctx.observe("formats_verified", en["fmt"])
        else:
            ctx.count("files_unverifiable")
    seen_b = {}
    for b, f, mi, ki in req:
        seen_b.setdefault(b, []).append(mi)
    for b, f, mi, ki in sorted(set(req)):
        missing_all = all(counts.get((b, f, key), 0) == 0 for key in exp)
        for key in sorted(exp):
            ctx.count("combos_checked")
            n = counts.get((b, f, key), 0)
            if n == 1:
                continue
            if n == 0:
                what = "requested-combination-not-reported"
                if seq_path and missing_all and ki > 0:
                    what = "mapping-with-several-buckets:bucket-not-reported"
                elif seq_path and missing_all and any(m > mi for m in seen_b[b]):
                    what = "bucket-in-several-mappings:format-not-reported"
                ctx.viol(f"C19:{tag}:{what}", f"no file reported for bucket {b}, format {f}, run {key} (save list {save})")
                if missing_all:
                    break
            else:
                ctx.viol(f"C19:{tag}:several-files-reported", f"{n} entries for bucket {b}, format {f}, run {key}")
    return entries


# =====================================================================================
# generators
# =====================================================================================
def gen_save(rng, allow_exotic=True, forms=("single", "single", "multi", "split")):
    nb = rng.choice([1, 2, 2, 3, 4])
    buckets = rng.sample(BUCKETS, nb)
    fmts = {b: list(rng.choice([["fits"], ["npy"], ["fits", "npy"], ["npy", "fits"]])) for b in buckets}
    exotic = None
    if allow_exotic and rng.random() < 0.4:
        exotic = rng.choice(["jpg", "jpg", "jpeg", "jpeg", "png", "txt", "csv", "hdf"])
        b = "image" if ("image" in buckets and exotic in ("jpg", "jpeg", "png") and rng.random() < 0.7) else rng.choice(buckets)
        fmts[b].insert(rng.randint(0, len(fmts[b])), exotic)
    form = rng.choice(forms)
    if form == "multi" and nb >= 2:
        cut = rng.randint(2, nb)
        save = [{f"detector.{b}.array": fmts[b] for b in buckets[:cut]}]
        save += [{f"detector.{b}.array": fmts[b]} for b in buckets[cut:]]
        rng.shuffle(save)
    elif form == "split" and any(len(v) >= 2 for v in fmts.values()):
        b0 = rng.choice([b for b in buckets if len(fmts[b]) >= 2])
        k = rng.randint(1, len(fmts[b0]) - 1)
        save = [{f"detector.{b}.array": fmts[b]} for b in buckets if b != b0]
        save.insert(rng.randint(0, len(save)), {f"detector.{b0}.array": fmts[b0][:k]})
        save.append({f"detector.{b0}.array": fmts[b0][k:]})
    else:
        form = "single"
        save = [{f"detector.{b}.array": fmts[b]} for b in buckets]
    return save, exotic, form


def gen_detector(rng):
    dtypes = {"image": rng.choice(["uint8", "uint16", "uint16", "uint32", "uint64"]),
              "photon": rng.choice(["float64", "float64", "float32"]),
              "pixel": rng.choice(["float64", "float64", "float32"]),
              "signal": rng.choice(["float64", "float64", "float32"])}
    dspec = build.default_detector_spec(rng.choice(["ccd", "cmos", "ccd", "apd", "mkid"]), rng.randint(4, 8), rng.randint(4, 8))
    dspec["characteristics"]["adc_bit_resolution"] = 8 * np.dtype(dtypes["image"]).itemsize
    return dspec, dtypes


def pipeline_spec(a, b, dtypes, stochastic=False):
    args = {"a": int(a), "b": int(b), "dtypes": dict(dtypes)}
    if stochastic:
        args["stochastic"] = True
    return {GROUP: [{"name": MODEL, "func": "vf.checks.c19.fill", "arguments": args}]}


def gen_reproducibility(rng) -> dict:
    """Pipelines are deterministic, or hold a stochastic model (content drawn from numpy's global generator) run with or,
    mostly, without a pipeline seed.  Drawn from a generator of its own, derived from the state of the case generator."""
    import random
    sub = random.Random(hash(rng.getstate()[1]))
    stochastic = sub.random() < 0.5
    seed = sub.randint(0, 2**31 - 1) if (stochastic and sub.random() < 0.3) else None
    return {"stochastic": stochastic, "pipeline_seed": seed}


def seed_kwargs(cfg) -> dict:
    return {"pipeline_seed": int(cfg["pipeline_seed"])} if cfg.get("pipeline_seed") is not None else {}


def gen_space(rng, dask):
    pmode = rng.choice(["product", "product", "custom"] + ([] if dask else ["sequential"]))
    use_t = rng.random() < 0.35
    if pmode == "custom":
        nrows = rng.randint(3, 5)
        cols = {"a": rng.sample(range(3, 90), nrows), "b": rng.sample(range(3, 90), nrows)}
        if use_t:
            cols["temperature"] = rng.sample([100, 120, 150, 180, 200, 250], nrows)
    else:
        na = rng.choice([2, 3])
        nb = rng.choice([2, 3] if na == 2 else [1, 2, 2])
        cols = {"a": rng.sample(range(3, 90), na), "b": rng.sample(range(3, 90), nb)}
        if use_t:
            cols["temperature"] = rng.sample([100, 120, 150, 180, 200, 250], 2)
    order = list(cols)
    rng.shuffle(order)
    return {"pmode": pmode, "order": order, "cols": {k: cols[k] for k in order}}


def enumerate_keys(space):
    """Reference enumeration of the runs (no pyxel): -> list of (a, b, t)."""
    cols, order = space["cols"], space["order"]
    if space["pmode"] == "product":
        combos = [dict(zip(order, c)) for c in itertools.product(*[cols[k] for k in order])]
    elif space["pmode"] == "custom":
        combos = [{k: cols[k][r] for k in order} for r in range(len(cols[order[0]]))]
    else:
        combos = [{k: v} for k in order for v in cols[k]]
    out = []
    for c in combos:
        full = dict(DEFAULTS)
        full.update(c)
        out.append((int(full["a"]), int(full["b"]), int(full["temperature"])))
    return out


LONG = {"a": KEY_A, "b": KEY_B, "temperature": KEY_T}


# =====================================================================================
# building the real objects
# =====================================================================================
def outputs_kwargs(folder, prefix, save):
    kw = {"output_folder": folder, "save_data_to_file": [dict(d) for d in save]}
    if prefix:
        kw["custom_dir_name"] = prefix
    return kw


def build_exposure(cfg, a, b, folder):
    """-> (mode, detector, pipeline); objects built from Python or through YAML."""
    import pyxel
    from pyxel.exposure import Exposure, Readout
    from pyxel.outputs import ExposureOutputs
    pspec = pipeline_spec(a, b, cfg["dtypes"], cfg.get("stochastic", False))
    rspec = {"times": cfg["times"], "non_destructive": cfg["non_destructive"]}
    if cfg.get("yaml"):
        doc = {"exposure": {"readout": dict(rspec), "outputs": outputs_kwargs(folder, cfg["prefix"], cfg["save"]),
                            **seed_kwargs(cfg)},
               "pipeline": build.pipeline_yaml_dict(pspec)}
        doc.update(build.detector_yaml_dict(cfg["dspec"]))
        conf = pyxel.loads(build.dump_yaml(doc))
        return conf.exposure, getattr(conf, build.DETECTOR_KEYS[cfg["dspec"]["kind"]]), conf.pipeline
    mode = Exposure(readout=Readout(**rspec), outputs=ExposureOutputs(**outputs_kwargs(folder, cfg["prefix"], cfg["save"])),
                    **seed_kwargs(cfg))
    return mode, build.make_detector(cfg["dspec"]), build.make_pipeline(pspec)


def build_observation(cfg, folder, aux):
    import pyxel
    from pyxel.exposure import Readout
    from pyxel.observation import Observation, ParameterValues
    from pyxel.outputs import ObservationOutputs
    space = cfg["space"]
    pspec = pipeline_spec(DEFAULTS["a"], DEFAULTS["b"], cfg["dtypes"], cfg.get("stochastic", False))
    rspec = {"times": cfg["times"], "non_destructive": cfg["non_destructive"]}
    extra = {}
    plist = []
    for k in space["order"]:
        vals = space["cols"][k]
        vals = [float(v) for v in vals] if k == "temperature" else [int(v) for v in vals]
        plist.append({"key": LONG[k], "values": "_" if space["pmode"] == "custom" else vals})
    if space["pmode"] == "custom":
        os.makedirs(aux, exist_ok=True)
        table = os.path.join(aux, "table.txt")
        with open(table, "w") as fh:
            for r in range(len(space["cols"][space["order"][0]])):
                fh.write(" ".join(str(space["cols"][k][r]) for k in space["order"]) + "\n")
        extra = {"from_file": table, "column_range": (0, len(space["order"]))}
    if cfg.get("yaml"):
        obs = {"readout": dict(rspec), "mode": space["pmode"], "with_dask": cfg["dask"], "parameters": plist,
               "outputs": outputs_kwargs(folder, cfg["prefix"], cfg["save"]), **seed_kwargs(cfg)}
        if extra:
            obs.update({"from_file": extra["from_file"], "column_range": list(extra["column_range"])})
        doc = {"observation": obs, "pipeline": build.pipeline_yaml_dict(pspec)}
        doc.update(build.detector_yaml_dict(cfg["dspec"]))
        conf = pyxel.loads(build.dump_yaml(doc))
        return conf.observation, getattr(conf, build.DETECTOR_KEYS[cfg["dspec"]["kind"]]), conf.pipeline
    mode = Observation(parameters=[ParameterValues(key=p["key"], values=p["values"]) for p in plist],
                       readout=Readout(**rspec), mode=space["pmode"], with_dask=cfg["dask"],
                       outputs=ObservationOutputs(**outputs_kwargs(folder, cfg["prefix"], cfg["save"])), **extra,
                       **seed_kwargs(cfg))
    return mode, build.make_detector(cfg["dspec"]), build.make_pipeline(pspec)


def current_dir(outputs):
    try:
        return str(outputs.current_output_folder)
    except Exception:  # noqa: BLE001
        return None


def learn_and_prepopulate(ctx, rng, cfg, scratch, folder, n_dirs):
    """Learn, from real starts into a scratch folder under the same frozen clock, which directory and file names a
    start would use; create them (directories holding such files, or plain files) in the real output folder."""
    mode, det, pipe = build_exposure(cfg, 7, 7, scratch)
    import pyxel
    names, fnames = [], []
    try:
        pyxel.run_mode(mode=mode, detector=det, pipeline=pipe)
        d0 = current_dir(mode.outputs)
        names.append(os.path.basename(d0))
        fnames = sorted(os.listdir(d0))
    except Exception:  # noqa: BLE001 - a refused format: directory names are still learnt
        d0 = current_dir(mode.outputs)
        if d0:
            names.append(os.path.basename(d0))
            fnames = sorted(os.listdir(d0))
    for _ in range(n_dirs - 1):
        mode.outputs.create_output_folder()
        names.append(os.path.basename(current_dir(mode.outputs)))
    fnames = fnames or ["detector_image.fits"]
    os.makedirs(folder, exist_ok=True)
    made = []
    names = list(dict.fromkeys(names))
    for k, name in enumerate(names):
        if rng.random() < 0.15 and k > 0:
            continue
        path = os.path.join(folder, name)
        if os.path.lexists(path):
            continue
        if k > 0 and rng.random() < 0.3:
            with open(path, "wb") as fh:
                fh.write(b"a plain file with the name of a run directory")
        else:
            os.makedirs(path)
            for f in fnames + ["detector_image_array_1.fits", "detector_image_0.npy"]:
                with open(os.path.join(path, f), "wb") as fh:
                    fh.write(b"OLD CONTENT " + f.encode())
        made.append(name)
    for f in rng.sample(fnames + ["detector_image_array_1.fits", "pyxel.log", "output_filenames.csv"], 2):
        with open(os.path.join(folder, f), "wb") as fh:
            fh.write(b"OLD FILE IN THE OUTPUT FOLDER " + f.encode())
    ctx.count("prepopulated_collisions", len(made))
    return made


# =====================================================================================
# cases: exposure / observation (one watched window per start)
# =====================================================================================
def gen_common(rng, root, dask=False):
    dspec, dtypes = gen_detector(rng)
    n_steps = rng.choice([1, 1, 2, 3])
    times = sorted(rng.sample(range(1, 30), n_steps))
    save, exotic, form = gen_save(rng)
    nested = rng.random() < 0.5
    return {"dspec": dspec, "dtypes": dtypes, "times": [float(t) for t in times], "non_destructive": rng.random() < 0.4,
            "save": save, "exotic": exotic, "form": form, "prefix": rng.choice(["", "", "foo_", "run_", "x"]),
            "yaml": rng.random() < 0.3, "frozen": rng.random() < 0.8, "stamp": rand_stamp(rng).isoformat(),
            "nested": nested, "relative": rng.random() < 0.2, "dask": dask, **gen_reproducibility(rng)}


def folders(root, cfg):
    parent = os.path.realpath(os.path.join(root, "parent"))
    os.makedirs(parent, exist_ok=True)
    folder = os.path.join(parent, "out", "deep") if cfg["nested"] else parent
    given = os.path.relpath(folder, os.getcwd()) if cfg["relative"] else folder
    return parent, folder, given


def note_clock(ctx, cfg, clock, run_dir):
    """The freeze counts as effective only when the frozen year shows in the name of the directory that was created."""
    if not cfg["frozen"] or not run_dir:
        return
    year = cfg["stamp"][:4]
    if clock.patched and year in os.path.basename(run_dir):
        ctx.count("frozen_clock_effective")
    elif not clock.patched:
        ctx.count("frozen_clock_ineffective")
    else:
        ctx.count("frozen_clock_unconfirmed")


def stamp_of(cfg):
    return _dt.datetime.fromisoformat(cfg["stamp"]) if cfg["frozen"] else None


def repro_class(cfg) -> str:
    if not cfg.get("stochastic"):
        return "deterministic"
    return "stochastic/seeded" if cfg.get("pipeline_seed") is not None else "stochastic/unseeded"


def note_repro(rec, cfg) -> dict:
    """Executions of the window that just ended, per run; counts the runs whose content no second execution repeats."""
    execs = collect_execs()
    rec.observe("reproducibility", repro_class(cfg))
    if repro_class(cfg) == "stochastic/unseeded":
        rec.count("nonreproducible_runs", len(execs))
    return execs


def handle_failure(ctx, tag, cfg, exc):
    if cfg["exotic"]:
        ctx.count("refused")
        ctx.observe("refusals", f"{tag}:{cfg['exotic']}:{type(exc).__name__}")
        return
    ctx.viol(f"C19:{tag}:run-failed", f"{type(exc).__name__}: {exc} :: {traceback.format_exc()[-700:]}")


def case_exposure(rec, index, rng, root):
    import pyxel
    cfg = gen_common(rng, root)
    cfg["hier"] = rng.random() < 0.5
    cfg["n_starts"] = rng.choice([1, 2, 2, 3])
    cfg["reuse_mode"] = rng.random() < 0.5
    cfg["prepopulate"] = cfg["frozen"] and rng.random() < 0.7
    parent, folder, given = folders(root, cfg)
    case = {"kind": "exposure", **{k: cfg[k] for k in ("save", "times", "prefix", "yaml", "frozen", "stamp", "nested",
                                                         "relative", "hier", "n_starts", "reuse_mode", "prepopulate", "dtypes",
                                                         "stochastic", "pipeline_seed")}}
    ctx = Ctx(rec, case, index)
    with FrozenClock(stamp_of(cfg)) as clock:
        if cfg["prepopulate"]:
            learn_and_prepopulate(ctx, rng, cfg, os.path.join(root, "scratch"), folder, rng.randint(1, 3))
        mode0 = None
        dirs = []
        for s in range(cfg["n_starts"]):
            a, b = 10 + s, rng.randint(3, 90)
            mode, det, pipe = build_exposure(cfg, a, b, given)
            save_s = cfg["save"]
            if cfg["reuse_mode"] and mode0 is not None:
                mode = mode0
                if rng.random() < 0.6:
                    # the user edits the save list of the configuration object between two runs
                    save_s = gen_save(rng, allow_exotic=False)[0]
                    mode.outputs.save_data_to_file = [dict(d) for d in save_s]
                    case.setdefault("save_list_edits", []).append({"start": s, "save": save_s})
                    rec.count("runs_exposure_after_save_list_edit")
                else:
                    save_s = last_save
            mode0 = mode
            last_save = save_s
            before = listing(parent)
            reset_log()
            MON.begin(parent)
            err = tree = None
            try:
                tree = pyxel.run_mode(mode=mode, detector=det, pipeline=pipe, with_inherited_coords=cfg["hier"])
            except Exception as exc:  # noqa: BLE001
                err = exc
            events = MON.end()
            after = listing(parent)
            run_dir = current_dir(mode.outputs)
            dirs.append(run_dir)
            note_clock(ctx, cfg, clock, run_dir)
            rec.count("runs_exposure")
            if s > 0:
                rec.count("same_second_starts" if cfg["frozen"] else "repeated_starts_real_clock")
            check_fs(ctx, "exposure", parent, before, after, events,
                     [{"id": s, "tid": threading.get_ident(), "dir": run_dir}])
            if err is not None:
                handle_failure(ctx, "exposure", cfg, err)
                continue
            snaps, n_exec, _ = collect_snaps()
            rec.count("probe_snapshots", len(snaps))
            check_result(ctx, "exposure", tree, run_dir, save_s, [(a, b, DEFAULTS["temperature"])], snaps,
                         before=before, parent=parent, execs=note_repro(rec, cfg))
    rec.observe("modes", "exposure" + ("/yaml" if cfg["yaml"] else ""))
    rec.observe("save_forms", cfg["form"])
    rec.observe("n_readouts", len(cfg["times"]))
    sig = ("exposure", cfg["save"], cfg["times"], cfg["prefix"], cfg["n_starts"], cfg["reuse_mode"], cfg["hier"], cfg["yaml"],
           cfg["prepopulate"], cfg["frozen"], repro_class(cfg))
    rec.case(sig, cfg["n_starts"] >= 2 or len(requested(cfg["save"])) >= 2, sample=case)


DASK_SCHEDULERS = [None, None, {"scheduler": "threads", "num_workers": 2}, {"scheduler": "synchronous"}]


def case_observation(rec, index, rng, root, dask):
    import pyxel
    tag = "obs_dask" if dask else "obs_seq"
    cfg = gen_common(rng, root, dask=dask)
    cfg["space"] = gen_space(rng, dask)
    cfg["hier"] = True if dask else rng.random() < 0.5
    cfg["n_starts"] = rng.choice([1, 1, 2])
    cfg["sched"] = rng.choice(DASK_SCHEDULERS) if dask else None
    cfg["prepopulate"] = cfg["frozen"] and rng.random() < 0.5
    parent, folder, given = folders(root, cfg)
    expected = enumerate_keys(cfg["space"])
    case = {"kind": tag, **{k: cfg[k] for k in ("save", "times", "prefix", "yaml", "frozen", "stamp", "nested", "relative",
                                                   "hier", "n_starts", "space", "sched", "prepopulate", "dtypes",
                                                   "stochastic", "pipeline_seed")}}
    ctx = Ctx(rec, case, index)
    with FrozenClock(stamp_of(cfg)) as clock:
        if cfg["prepopulate"]:
            learn_and_prepopulate(ctx, rng, cfg, os.path.join(root, "scratch"), folder, rng.randint(1, 2))
        for s in range(cfg["n_starts"]):
            mode, det, pipe = build_observation(cfg, given, os.path.join(root, "aux"))
            before = listing(parent)
            reset_log()
            MON.begin(parent)
            err = tree = None
            n_before_load = None
            try:
                tree = pyxel.run_mode(mode=mode, detector=det, pipeline=pipe, with_inherited_coords=cfg["hier"])
                if dask:
                    n_before_load = len([e for e in MON.events if e["ev"] not in ("probe", "os.mkdir")])
                    if cfg["sched"]:
                        import dask as _dask
                        with _dask.config.set(**cfg["sched"]):
                            tree.load()
                    else:
                        tree.load()
            except Exception as exc:  # noqa: BLE001
                err = exc
            events = MON.end()
            after = listing(parent)
            run_dir = current_dir(mode.outputs)
            note_clock(ctx, cfg, clock, run_dir)
            rec.count("runs_" + tag, len(expected))
            rec.count("starts_" + tag)
            if s > 0:
                rec.count("same_second_starts" if cfg["frozen"] else "repeated_starts_real_clock")
            check_fs(ctx, tag, parent, before, after, events, [{"id": s, "tid": threading.get_ident(), "dir": run_dir}])
            if err is not None:
                handle_failure(ctx, tag, cfg, err)
                continue
            snaps, n_exec, keys = collect_snaps()
            rec.count("probe_snapshots", len(snaps))
            if dask:
                # the metadata run works in a TemporaryDirectory of its own: count if it ever shows in the run directory
                if n_exec == len(expected) + 1:
                    rec.count("dask_metadata_runs_seen")
                elif n_exec > len(expected) + 1:
                    rec.count("dask_reexecutions_seen", n_exec - len(expected) - 1)
                if n_before_load:
                    rec.count("dask_metadata_run_touched_run_directory", n_before_load)
                rec.observe("dask_schedulers", json.dumps(cfg["sched"]))
                rec.observe("dask_writer_threads", len({e["tid"] for e in events if e["ev"] == "open"}))
            check_result(ctx, tag, tree, run_dir, cfg["save"], expected, snaps, seq_path=not dask, before=before, parent=parent,
                         execs=note_repro(rec, cfg))
    rec.observe("modes", tag + ":" + cfg["space"]["pmode"] + ("/yaml" if cfg["yaml"] else ""))
    rec.observe("save_forms", cfg["form"])
    rec.observe("n_runs", len(expected))
    sig = (tag, cfg["save"], cfg["space"], cfg["times"], cfg["prefix"], cfg["n_starts"], cfg["yaml"], cfg["sched"], cfg["frozen"],
           repro_class(cfg))
    rec.case(sig, True, sample=case)


# =====================================================================================
# concurrent starts from threads
# =====================================================================================
def interleaving_signature(runs, events):
    """Order in which the starts obtained their directories (by the mkdir event on the final directory)."""
    first = {}
    for e in events:
        if e["ev"] == "os.mkdir":
            first.setdefault(e["path"], e["seq"])
    order = sorted((first.get(r["dir"], 1 << 60), r["id"]) for r in runs if r["dir"])
    return "-".join(str(i) for _s, i in order)


def case_threads(rec, index, rng, root, tier):
    import pyxel
    from pyxel.outputs import ExposureOutputs
    cfg = gen_common(rng, root)
    cfg["frozen"] = True
    cfg["yaml"] = False
    cfg["exotic"] = None
    cfg["save"], _ex, cfg["form"] = gen_save(rng, allow_exotic=False)
    cfg["times"] = [1.0]
    cfg["pipeline_seed"] = None  # a pipeline seed serialises the starts on pyxel's seed lock
    full = rng.random() < 0.55
    n = rng.choice([2, 3, 4, 5, 6, 8]) if full else rng.choice([2, 4, 7, 8, 11, 12, 16, 16])
    if tier == "thorough" and full:
        n = rng.choice([2, 3, 4, 6, 8, 10, 12, 16])
    rounds = 1 if full else rng.randint(1, 3)
    cfg["prepopulate"] = rng.random() < 0.5
    parent, folder, given = folders(root, cfg)
    case = {"kind": "threads", "full_runs": full, "n": n, "rounds": rounds,
            **{k: cfg[k] for k in ("save", "prefix", "stamp", "nested", "relative", "prepopulate", "dtypes", "stochastic")}}
    ctx = Ctx(rec, case, index)
    with FrozenClock(stamp_of(cfg)) as clock:
        if cfg["prepopulate"]:
            learn_and_prepopulate(ctx, rng, cfg, os.path.join(root, "scratch"), folder, rng.randint(1, 3))
        for rnd in range(rounds):
            jobs = []
            for k in range(n):
                a, b = 100 * rnd + 10 + k, rng.randint(3, 90)
                if full:
                    mode, det, pipe = build_exposure(cfg, a, b, given)
                    jobs.append({"id": k, "a": a, "b": b, "mode": mode, "det": det, "pipe": pipe, "outputs": mode.outputs})
                else:
                    jobs.append({"id": k, "a": a, "b": b,
                                 "outputs": ExposureOutputs(**outputs_kwargs(given, cfg["prefix"], cfg["save"]))})
            barrier = threading.Barrier(n)

            def work(job):
                job["tid"] = threading.get_ident()
                try:
                    barrier.wait(timeout=120)
                    if full:
                        job["tree"] = pyxel.run_mode(mode=job["mode"], detector=job["det"], pipeline=job["pipe"],
                                                     with_inherited_coords=True)
                    else:
                        job["outputs"].create_output_folder()
                except Exception as exc:  # noqa: BLE001
                    job["err"] = f"{type(exc).__name__}: {exc} :: {traceback.format_exc()[-500:]}"

            before = listing(parent)
            reset_log()
            MON.begin(parent)
            threads = [threading.Thread(target=work, args=(job,)) for job in jobs]
            for t in threads:
                t.start()
            for t in threads:
                t.join(600)
            events = MON.end()
            after = listing(parent)
            if any(t.is_alive() for t in threads):
                raise RuntimeError("a concurrent start did not finish within its watchdog")
            runs = [{"id": j["id"], "tid": j["tid"], "dir": current_dir(j["outputs"])} for j in jobs]
            note_clock(ctx, cfg, clock, runs[0]["dir"])
            rec.count("thread_batches")
            rec.count("thread_starts", n)
            rec.count("same_second_starts", n - 1)
            if full:
                rec.count("runs_exposure", n)
            check_fs(ctx, "threads", parent, before, after, events, runs)
            rec.observe("thread_levels", n)
            rec.observe("interleavings", f"thr{n}:" + interleaving_signature(runs, events))
            rec.observe("distinct_directories_per_batch", len({r["dir"] for r in runs if r["dir"]}))
            snaps, _n, _k = collect_snaps()
            execs = note_repro(rec, cfg) if full else None
            rec.count("probe_snapshots", len(snaps))
            for j, run in zip(jobs, runs):
                if j.get("err"):
                    ctx.viol("C19:threads:start-failed", f"start {j['id']} of {n}: {j['err']}")
                elif full:
                    check_result(ctx, "threads", j["tree"], run["dir"], cfg["save"],
                                 [(j["a"], j["b"], DEFAULTS["temperature"])], snaps, before=before, parent=parent,
                                 execs=execs)
    sig = ("threads", full, n, rounds, cfg["save"], cfg["prefix"], cfg["prepopulate"], cfg["nested"])
    rec.case(sig, True, sample=case)


# =====================================================================================
# concurrent starts from separate processes (file barrier)
# =====================================================================================
def proc_main(cfg_file: str) -> None:
    """Entry point of one child process: start one exposure (or a bare create_output_folder) behind the barrier."""
    with open(cfg_file) as fh:
        job = json.load(fh)
    out = {"id": job["id"], "dir": None, "err": None, "events": [], "counts": {}, "sets": [], "viols": [], "timeout": False}
    try:
        import pyxel
        from pyxel.outputs import ExposureOutputs
        from vf.worker import assert_pyxel_from_repo
        cfg = job["cfg"]
        MON.install()
        mini = MiniRec()
        ctx = Ctx(mini, None, None)
        if job["full"]:
            mode, det, pipe = build_exposure(cfg, job["a"], job["b"], job["given"])
            outputs = mode.outputs
        else:
            outputs = ExposureOutputs(**outputs_kwargs(job["given"], cfg["prefix"], cfg["save"]))
        with FrozenClock(_dt.datetime.fromisoformat(cfg["stamp"])) as clock:
            out["frozen"] = clock.patched
            open(os.path.join(job["sync"], f"ready_{job['id']}"), "w").close()
            go = os.path.join(job["sync"], "go")
            for _ in range(60000):  # logical bound; the parent decides
                if os.path.exists(go):
                    break
                time.sleep(0.002)
            else:
                out["timeout"] = True
            reset_log()
            MON.begin(job["parent"])
            tree = None
            try:
                if job["full"]:
                    tree = pyxel.run_mode(mode=mode, detector=det, pipeline=pipe, with_inherited_coords=True)
                else:
                    outputs.create_output_folder()
            except Exception as exc:  # noqa: BLE001
                out["err"] = f"{type(exc).__name__}: {exc} :: {traceback.format_exc()[-500:]}"
            out["events"] = MON.end()
        out["dir"] = current_dir(outputs)
        if tree is not None:
            snaps, _n, _k = collect_snaps()
            mini.count("probe_snapshots", len(snaps))
            check_result(ctx, "procs", tree, out["dir"], cfg["save"], [(job["a"], job["b"], DEFAULTS["temperature"])], snaps,
                         execs=note_repro(mini, cfg))
        out["counts"], out["sets"], out["viols"] = mini.counts, mini.sets, mini.viols
        out["monitor_errors"] = MON.errors
        out["pyxel_modules"] = assert_pyxel_from_repo()
    except BaseException:  # noqa: BLE001
        out["crash"] = traceback.format_exc()[-1500:]
    with open(job["out"] + ".tmp", "w") as fh:
        json.dump(out, fh, default=str)
    os.replace(job["out"] + ".tmp", job["out"])
    sys.stdout.flush()
    os._exit(0)


def case_procs(rec, index, rng, root, n):
    cfg = gen_common(rng, root)
    cfg.update({"frozen": True, "yaml": False, "exotic": None, "times": [1.0], "pipeline_seed": None})
    cfg["save"], _ex, cfg["form"] = gen_save(rng, allow_exotic=False)
    full = rng.random() < 0.7
    cfg["prepopulate"] = rng.random() < 0.5
    parent, folder, given = folders(root, cfg)
    sync = os.path.join(root, "sync")
    os.makedirs(sync, exist_ok=True)
    case = {"kind": "procs", "full_runs": full, "n": n,
            **{k: cfg[k] for k in ("save", "prefix", "stamp", "nested", "relative", "prepopulate", "dtypes", "stochastic")}}
    ctx = Ctx(rec, case, index)
    if cfg["prepopulate"]:
        with FrozenClock(stamp_of(cfg)):
            learn_and_prepopulate(ctx, rng, cfg, os.path.join(root, "scratch"), folder, rng.randint(1, 3))
    jobs = []
    for k in range(n):
        job = {"id": k, "a": 10 + k, "b": rng.randint(3, 90), "cfg": cfg, "full": full, "given": given, "parent": parent,
               "sync": sync, "out": os.path.join(sync, f"out_{k}.json")}
        path = os.path.join(sync, f"job_{k}.json")
        with open(path, "w") as fh:
            json.dump(job, fh)
        jobs.append((job, path))
    before = listing(parent)
    results = {}

    def launch(job, path):
        try:
            results[job["id"]] = subprocess.run(
                [sys.executable, "-c", "import sys; from vf.checks.c19 import proc_main; proc_main(sys.argv[1])", path],
                capture_output=True, text=True, timeout=600, cwd=os.getcwd())
        except subprocess.TimeoutExpired as exc:
            results[job["id"]] = exc

    threads = [threading.Thread(target=launch, args=jp) for jp in jobs]
    for t in threads:
        t.start()
    for _ in range(120000):  # wait until every child stands at the barrier (or has died)
        ready = sum(os.path.exists(os.path.join(sync, f"ready_{k}")) for k in range(n))
        if ready == n or not any(t.is_alive() for t in threads):
            break
        time.sleep(0.005)
    open(os.path.join(sync, "go"), "w").close()
    for t in threads:
        t.join(700)
    after = listing(parent)
    outs = []
    for job, _path in jobs:
        try:
            with open(job["out"]) as fh:
                outs.append(json.load(fh))
        except Exception:  # noqa: BLE001
            res = results.get(job["id"])
            raise RuntimeError(f"child process {job['id']} left no report: {getattr(res, 'stderr', res)!s:.800}")
    for o in outs:
        if o.get("crash"):
            raise RuntimeError(f"child process {o['id']} crashed: {o['crash']}")
    if any(o["timeout"] for o in outs):
        rec.count("proc_batches_barrier_timeout")
    events = []
    runs = []
    for o in outs:  # thread ids are only unique per process: one owner per process
        tid = ("p", o["id"])
        for e in o["events"]:
            e["tid"] = tid
            e["seq"] = e["t"]  # system-wide monotonic clock: only orders events within a path / for statistics
            if e["ev"] == "probe":
                e["det"] = (o["id"], e["det"])
            events.append(e)
        runs.append({"id": o["id"], "tid": tid, "dir": o["dir"]})
        for name, v in o["counts"].items():
            rec.count(name, v)
        for name, v in o["sets"]:
            rec.observe(name, v)
        for mech, detail in o["viols"]:
            ctx.viol(mech, f"process {o['id']} of {n}: {detail}")
        if o["err"]:
            ctx.viol("C19:procs:start-failed", f"process {o['id']} of {n}: {o['err']}")
        if o.get("frozen") and o["dir"] and cfg["stamp"][:4] in os.path.basename(o["dir"]):
            rec.count("frozen_clock_effective")
        else:
            rec.count("frozen_clock_ineffective" if not o.get("frozen") else "frozen_clock_unconfirmed")
        rec.count("child_pyxel_modules_from_repo", o.get("pyxel_modules", 0))
        if o.get("monitor_errors"):
            rec.count("monitor_errors", o["monitor_errors"])
    rec.count("proc_batches")
    rec.count("proc_starts", n)
    rec.count("same_second_starts", n - 1)
    if full:
        rec.count("runs_exposure", n)
    check_fs(ctx, "procs", parent, before, after, events, runs)
    rec.observe("proc_levels", n)
    rec.observe("interleavings", f"proc{n}:" + interleaving_signature(runs, events))
    rec.observe("distinct_directories_per_batch", len({r["dir"] for r in runs if r["dir"]}))
    sig = ("procs", full, n, cfg["save"], cfg["prefix"], cfg["prepopulate"], cfg["nested"])
    rec.case(sig, True, sample=case)


# =====================================================================================
# the public writer API against colliding names
# =====================================================================================
WRITERS = {"fits": "to_fits", "npy": "to_npy", "txt": "to_txt", "csv": "to_csv", "png": "to_png", "jpg": "to_jpg",
           "hdf": "to_hdf"}


def writer_data(fmt, arr, detector):
    if fmt in ("png", "jpg"):
        return (np.asarray(arr, dtype=np.float64) % 256).astype(np.uint8)
    if fmt == "csv":
        import pandas as pd
        return pd.DataFrame(np.asarray(arr, dtype=float))
    if fmt == "hdf":
        return detector
    return np.asarray(arr)


def mirror_names(src, dst):
    os.makedirs(dst, exist_ok=True)
    for f in os.listdir(src):
        if os.path.isfile(os.path.join(src, f)):
            with open(os.path.join(dst, f), "wb") as fh:
                fh.write(b"mirror")


def case_writers(rec, index, rng, root):
    import pyxel
    from pyxel.exposure import Exposure, Readout
    from pyxel.outputs import ExposureOutputs
    from pyxel.outputs import utils as U
    import pathlib

    import xarray as xr
    from pyxel.pipelines import Processor
    cfg = gen_common(rng, root)
    cfg.update({"yaml": False, "nested": False, "relative": False, "times": [1.0], "exotic": None})
    cfg["save"], _ex, cfg["form"] = gen_save(rng, allow_exotic=False, forms=("single", "multi", "split"))
    parent, folder, given = folders(root, cfg)
    a, b = rng.randint(3, 90), rng.randint(3, 90)
    detector = build.make_detector(cfg["dspec"])
    pipeline = build.make_pipeline(pipeline_spec(a, b, cfg["dtypes"]))
    reset_log()
    pyxel.run_mode(mode=Exposure(readout=Readout(times=[1.0])), detector=detector, pipeline=pipeline)
    snaps, _n, _k = collect_snaps()
    key = (a, b, DEFAULTS["temperature"])
    snap = snaps[key]
    rec.count("probe_snapshots", len(snaps))
    processor = Processor(detector=detector, pipeline=pipeline)
    case = {"kind": "writers", "save": cfg["save"], "prefix": cfg["prefix"], "dtypes": cfg["dtypes"], "ops": []}
    ctx = Ctx(rec, case, index)
    outputs = ExposureOutputs(**outputs_kwargs(given, cfg["prefix"], cfg["save"]))
    with FrozenClock(stamp_of(cfg)) as clock:
        before = listing(parent)
        MON.begin(parent)
        outputs.create_output_folder()
        events = MON.end()
        run_dir = current_dir(outputs)
        note_clock(ctx, cfg, clock, run_dir)
        check_fs(ctx, "writer", parent, before, listing(parent), events, [{"id": 0, "tid": threading.get_ident(), "dir": run_dir}])
    run_dir = _real(run_dir)
    n_ops = rng.randint(5, 9)
    for k in range(n_ops):
        scratch = os.path.join(root, "scratch", f"op{k}")
        if rng.random() < 0.3:
            op = {"api": "save_to_file", "collide": rng.random() < 0.7}
        else:
            fmt = rng.choice(["fits", "npy", "txt", "txt", "csv", "csv", "png", "jpg", "fits", "npy", "hdf"])
            bucket = "image" if fmt in ("png", "jpg") else rng.choice(BUCKETS)
            naming = rng.choice(["auto", "auto", "fixed", "number"])
            op = {"api": WRITERS[fmt], "fmt": fmt, "bucket": bucket, "naming": naming,
                  "run_number": rng.randint(0, 3) if naming == "number" else None, "collide": rng.random() < 0.75}
        case["ops"].append(op)

        def call(target_outputs, target_dir):
            """-> {(bucket, fmt): path} of what the call reports."""
            if op["api"] == "save_to_file":
                tree = target_outputs.save_to_file(processor)
                return tree
            data = writer_data(op["fmt"], snap[op["bucket"]], detector)
            path = getattr(U, op["api"])(current_output_folder=pathlib.Path(target_dir), data=data,
                                         name=f"detector.{op['bucket']}.array",
                                         with_auto_suffix=op["naming"] != "fixed", run_number=op["run_number"])
            return str(path)

        # learn, in a scratch folder holding the same file names, which name(s) the call would use
        if op["api"] == "save_to_file":
            s_out = ExposureOutputs(**outputs_kwargs(scratch, cfg["prefix"], cfg["save"]))
            s_out.create_output_folder()
            s_dir = current_dir(s_out)
        else:
            s_out, s_dir = None, scratch
        mirror_names(run_dir, s_dir)
        s_before = set(os.listdir(s_dir))
        try:
            call(s_out, s_dir)
        except Exception as exc:  # noqa: BLE001 - this writer refuses the request as such
            rec.count("refused")
            rec.observe("refusals", f"writer:{op['api']}:{type(exc).__name__}")
            rec.observe("writer_ops", f"{op['api']}:refused")
            continue
        learnt = sorted(set(os.listdir(s_dir)) - s_before)
        if not learnt:
            ctx.viol(f"C19:writer:{op['api']}:nothing-written", f"op {op}: the call returned but no new file appeared")
            continue
        collided = []
        if op["collide"]:
            for f in learnt:
                with open(os.path.join(run_dir, f), "wb") as fh:
                    fh.write(b"OLD CONTENT " + f.encode())
                collided.append(f)
            rec.count("writer_collisions_checked", len(collided))
        before = listing(parent)
        MON.begin(parent)
        err = res = None
        try:
            res = call(outputs, run_dir)
        except Exception as exc:  # noqa: BLE001
            err = exc
        events = MON.end()
        after = listing(parent)
        rec.count("writer_calls")
        auto = op["api"] == "save_to_file" or op["naming"] == "auto"
        rec.observe("writer_ops", f"{op['api']}:{'auto' if auto else op.get('naming')}:{'collide' if collided else 'free'}:"
                                  f"{'refused' if err else 'written'}")
        # no-clobber: hashes + events (mechanism per writer and naming class)
        wtag = op["api"] + (":auto-suffix" if auto else "")
        clobbered = [f for f, h in before["files"].items() if after["files"].get(f) != h]
        touched = []
        for e in events:
            e["path"] = _real(e["path"])
            for path, what in modifications(e):
                if _under(path, parent) and os.path.normpath(os.path.relpath(path, parent)) in before["files"]:
                    touched.append((os.path.relpath(path, parent), what))
        rec.count("fs_events", len(events))
        rec.count("preexisting_files_hashed", len(before["files"]))
        if clobbered or touched:
            ctx.viol(f"C19:writer:{wtag}:existing-file-overwritten",
                     f"op {op}: existing files changed {clobbered[:3]} / modifying events on existing paths {touched[:3]}")
            continue
        if err is not None:
            if auto and not isinstance(err, (NotImplementedError, ImportError, TypeError)):
                ctx.viol(f"C19:writer:{wtag}:numbered-save-refused-by-existing-file",
                         f"op {op}: the same call succeeded in a folder without the colliding names {collided} but raised "
                         f"{type(err).__name__}: {err}")
            else:
                rec.count("writer_refused_existing_name")
            continue
        # what the call reports: fresh files with the right content
        if op["api"] == "save_to_file":
            check_result(ctx, "writer:save_to_file", xr.DataTree.from_dict({"/output": res}), run_dir,
                         cfg["save"], [key], snaps, seq_path=True, before=before, parent=parent)
            continue
        rec.count("entries_resolved")
        path = _real(res)
        r = os.path.normpath(os.path.relpath(path, parent))
        if not os.path.isfile(path):
            ctx.viol(f"C19:writer:{wtag}:returned-file-missing", f"op {op}: returned {res!r} does not exist")
            continue
        if r in before["files"]:
            ctx.viol(f"C19:writer:{wtag}:returned-file-existed-before", f"op {op}: returned {res!r} existed before the call")
            continue
        want = writer_data(op["fmt"], snap[op["bucket"]], detector)
        want = np.asarray(want)
        verdict, detail = compare_file(path, op["fmt"], want, [snap[b2] for b2 in BUCKETS if b2 != op["bucket"]] if op["fmt"] != "jpg" else [])
        if verdict == "bad":
            ctx.viol(f"C19:writer:{op['api']}:returned-file-content-differs", f"op {op}: {detail}")
        elif verdict == "exact":
            rec.count("files_compared_exact")
            rec.observe("formats_verified", op["fmt"])
        elif verdict == "lossy":
            rec.count("files_compared_lossy")
            rec.observe("formats_verified", op["fmt"])
    rec.case(("writers", cfg["save"], [sorted(o.items()) for o in case["ops"]]), True, sample=case)


# =====================================================================================
# plan / shard driver / evidence
# =====================================================================================
MIX = ("exposure", "obs_seq", "obs_dask", "threads", "writers", "exposure", "obs_dask", "obs_seq", "threads")


def plan(tier, seed):
    if tier == "quick":
        specs = [{"shard": s, "seed": seed, "kind": "mixed", "n": 14, "tier": tier} for s in range(13)]
        levels = [[2, 5], [3, 4], [6]]
        levels[seed % 3] = levels[seed % 3] + [2 + (seed * 7) % 15]
        specs += [{"shard": 13 + k, "seed": seed, "kind": "procs", "levels": lv, "n": len(lv)} for k, lv in enumerate(levels)]
        return specs
    specs = [{"shard": s, "seed": seed, "kind": "mixed", "n": 110, "tier": tier} for s in range(12)]
    allv = [2, 3, 4, 5, 6, 7, 8, 9, 10, 11, 12, 13, 14, 15, 16, 2, 4, 8, 16, 3]
    for k in range(4):
        lv = allv[k::4]
        specs.append({"shard": 12 + k, "seed": seed, "kind": "procs", "levels": lv, "n": len(lv)})
    return specs


def run_shard(spec, rec):
    MON.install()
    tier = spec.get("tier", "quick")
    for i in range(spec["n"]):
        if not rec.wanted(i):
            continue
        rng = rec.rng(i)
        root = os.path.join(rec.tmp, f"c{i}")
        os.makedirs(root, exist_ok=True)
        if spec["kind"] == "procs":
            case_procs(rec, i, rng, root, spec["levels"][i])
            continue
        kind = MIX[(i + spec["shard"]) % len(MIX)]
        if kind == "exposure":
            case_exposure(rec, i, rng, root)
        elif kind == "obs_seq":
            case_observation(rec, i, rng, root, dask=False)
        elif kind == "obs_dask":
            case_observation(rec, i, rng, root, dask=True)
        elif kind == "threads":
            case_threads(rec, i, rng, root, tier)
        else:
            case_writers(rec, i, rng, root)
    if MON.errors:
        rec.count("monitor_errors", MON.errors)


def finalize(counters, sets, tier):
    out = []
    if counters.get("monitor_errors", 0):
        out.append(f"the audit-hook monitor failed on {counters['monitor_errors']} events")
    if counters.get("frozen_clock_ineffective", 0) or counters.get("frozen_clock_unconfirmed", 0) > counters.get("frozen_clock_effective", 0):
        out.append("the clock of create_output_directory could not be frozen (the 'datetime' name is no longer what it reads): "
                   "same-second starts were not forced")
    if len(sets.get("interleavings", [])) < 2:
        out.append("fewer than two distinct interleavings of concurrent starts were observed")
    if not any(int(x) >= 8 for x in sets.get("thread_levels", [])):
        out.append("no batch of >= 8 concurrent thread starts was observed")
    for fmt in CORE_FORMATS:
        if fmt not in sets.get("formats_verified", []):
            out.append(f"no {fmt} file was read back")
    return out


def coverage_extra(counters, sets, tier):
    c = counters.get
    return {
        "exhaustive": False,
        "mkdir": {"events": c("mkdir_events", 0), "attempts_by_starts": c("mkdir_attempts", 0),
                  "retries_after_FileExistsError": c("mkdir_retries", 0),
                  "collisions_with_existing_name": c("mkdir_collisions_with_existing", 0),
                  "races_lost_between_check_and_mkdir": c("mkdir_races_lost", 0),
                  "max_retries_of_one_start": max([int(x) for x in sets.get("retries_per_start", [])] or [0])},
        "concurrency": {"thread_levels": sorted(int(x) for x in sets.get("thread_levels", [])),
                        "process_levels": sorted(int(x) for x in sets.get("proc_levels", [])),
                        "thread_batches": c("thread_batches", 0), "process_batches": c("proc_batches", 0),
                        "distinct_interleavings": len(sets.get("interleavings", [])),
                        "same_second_starts": c("same_second_starts", 0)},
        "files": {"compared_bit_exact": c("files_compared_exact", 0), "compared_lossy": c("files_compared_lossy", 0),
                  "formats_verified": sets.get("formats_verified", []), "refusals": sets.get("refusals", []),
                  "combos_checked": c("combos_checked", 0), "write_events": c("write_events", 0),
                  "preexisting_files_hashed": c("preexisting_files_hashed", 0)},
        "dask": {"metadata_runs_seen": c("dask_metadata_runs_seen", 0), "reexecutions": c("dask_reexecutions_seen", 0),
                 "metadata_run_events_in_run_directory": c("dask_metadata_run_touched_run_directory", 0)},
        "reproducibility": {"classes": sets.get("reproducibility", []), "nonreproducible_runs": c("nonreproducible_runs", 0),
                            "entries_of_runs_executed_more_than_once": c("entries_of_runs_executed_more_than_once", 0),
                            "attributed_by_result_data": c("entries_attributed_by_result_data", 0),
                            "attribution_unresolved": c("entries_attribution_unresolved", 0)},
        "open_findings_reproduced": sets.get("open_findings", []),
        "strict": STRICT,
        "skipped": ["HDF5 backend (h5py) not installed: hdf requests are recorded as refused"],
    }

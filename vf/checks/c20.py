"""C20 -- input files are read and placed on the detector faithfully.

Four workloads, all executing the real pyxel code on files the harness writes itself below
``rec.tmp`` (numpy.save, astropy.io.fits, hand-formatted text):

* ``roundtrip``  pyxel.inputs.load_image / load_table / load_header on generated files: same
                 shape, same values (exact: binary formats and repr()/%.17g text are loss-free).
* ``place_exh`` / ``place_rand``  pyxel.util.fit_into_array and load_cropped_and_aligned_image
                 against the pixel-by-pixel placement rule of the statement (exhaustive over all
                 input shapes x output shapes x offsets x alignments up to a bound).
* ``model``      pyxel.models.photon_collection.load_image and charge_generation.load_charge on
                 a real detector, called directly and through pyxel.run_mode: bucket ==
                 placement x (time_step / time_scale) [x multiplier].
* ``stale``      one path rewritten several times inside one process, every consumer called
                 with identical arguments after every rewrite: the result must be the content
                 of the file *now*.  The path is spelled in every way pyxel accepts: absolute,
                 relative to the current directory, relative to the 'working_directory' option
                 (set through pyxel.set_options and through the running mode, str and Path, plain
                 and in sub-folders, also switched between two directories from run to run),
                 absolute while an unrelated working directory is set, and '~/...'.  Besides the loading
                 models, the models of the library that *use* a file on the content of the detector
                 (load_psf kernel, fixed_pattern_noise map, conversion_with_qe_map map) run after every
                 rewrite: their result must equal the result of the same model on a copy of the present
                 content under a never-used name (and, for the two maps, detector content x placement).
                 Four of seven histories run while a 'cache_folder' is chosen through pyxel.set_options
                 (str or Path, existing or not) with 'cache_enabled' left False.
* ``placed``     every model that fits one or several files onto the detector, each with its own position /
                 alignment arguments (fixed_pattern_noise, conversion_with_qe_map, persistence with the
                 densities map alone and with densities + capacities maps): the run must equal the run of the
                 same model on detector-shaped files holding the oracle placement of every input; inputs
                 that do not reach the detector must be rejected.

FITS files are written in the layouts a single image comes in: primary HDU, or an IMAGE extension behind
an empty primary HDU, each with or without a binary-table extension behind it.

The oracles (``oracle_*``) use numpy only -- no pyxel import, no slicing arithmetic shared with
the implementation (gather through index arrays).
"""
from __future__ import annotations

import itertools
import os
import time

import numpy as np

from vf import build

ID = "C20"
LEVEL = "exploration"
TECHNIQUE = ("runtime monitoring: harness-written input files and generated placements executed by the real "
             "loaders / fit_into_array / loading models, compared with an independent pixel-by-pixel placement "
             "oracle and with the arrays that were written")
RULE = ("file round trips: arrays 1x1..9x9 (25% one-row, 25% one-column, a few large up to 200x300), int and "
        "float values (text with repr()/%.17g), formats npy / FITS image (in the primary HDU or in an IMAGE "
        "extension behind an empty primary HDU, with or without a table extension) / FITS table / .txt .data .csv with tab, "
        "space, comma, bar, semicolon (and comma+blank); non-trivial = more than one element. placements: "
        "fit_into_array for every (input shape, output shape) up to the bound, every offset from -(size+1) to "
        "out+1 in both axes, the five alignment keywords, allow_smaller_array on/off; random larger ones also "
        "through load_cropped_and_aligned_image on files; non-trivial = not the identical copy at offset 0. "
        "models: random detector / input / position / alignment / time_step / time_scale / multiplier, direct "
        "call and run_mode exposure with 1-3 readout times. stale: 2-4 versions of one path (same shape, "
        "different shape, same byte size), in-place and rename rewrites, the path spelled absolute / relative to "
        "the current directory / relative to the working_directory option (str or Path, with and without "
        "sub-folder, also alternating between two working directories) / absolute under an unrelated working "
        "directory / with '~'; after every rewrite also the file-using models load_psf, fixed_pattern_noise and "
        "conversion_with_qe_map against their own run on a fresh copy of the content; 4 of 7 histories with the option "
        "cache_folder set (str / Path, existing / new folder) and cache_enabled False. placed: models with one or two "
        "placed files (fixed_pattern_noise, conversion_with_qe_map, persistence without and with a capacities map), per "
        "file an independent shape (smaller / larger / mixed; for persistence mostly at least the detector), "
        "position (covering, partial, outside; list or tuple) or alignment keyword or default, 1-3 calls, against "
        "the same model on harness-placed copies. distinct = distinct case signatures")
ASSUMPTIONS = [
    "the file system records a new modification time for a rewritten file (the harness re-writes until "
    "st_mtime_ns differs from the previous version; same-size rewrites with a forcibly restored mtime are not driven)",
    "alignment keywords follow the documented pixel convention: pixel (0, 0) is bottom-left, 'top' is the last row; "
    "'center' may round the half pixel either way",
    "text files hold finite numbers only, one separator style per file, no header line, no blank lines",
    "allow_smaller_array=False is a documented refusal: whether it refuses is counted, not judged; whatever is "
    "returned must still obey the placement rule",
    "xlsx, image formats (png/jpg/...), HDF5 and remote URLs are not driven",
    "a FITS file holds exactly one image (primary HDU, or first extension when the primary HDU has no data); files "
    "with several images, where 'the image' is a matter of convention, are not driven",
    "file-using models are deterministic functions of (content of the detector, file content, arguments): the run "
    "on a never-used copy of the file is the reference for the run on the rewritten path; stochastic or heavy "
    "file-using models (cosmix spectra, wavelength-dependent PSF/QE cubes) are not driven",
    "a model that places a file depends on the file only through its placement on the detector: the run on a "
    "detector-shaped file holding the placement (zero where the input does not reach), at the default position, is "
    "the reference for the run with position / alignment arguments (persistence maps are driven this way only)",
    "the option 'cache_enabled' stays False (default): the file cache is a documented opt-in and what it serves "
    "after a rewrite is not judged; the option 'cache_folder' alone only names a folder",
    "a relative file name designates the file below the 'working_directory' option when one is set and below the "
    "current directory otherwise; an absolute name is not affected by the option (documented behaviour of the option)",
    "a name starting with '~/' designates the file below $HOME (the loaders expand it); it is driven without a "
    "working directory only",
]
REQUIRED_COUNTERS = [
    "rt_load_image_checked", "rt_load_table_checked", "rt_load_header_checked",
    "place_offset_checked", "place_align_checked", "place_nonoverlap_rejected", "place_pixels_compared",
    "lcai_checked", "model_load_image_checked", "model_load_charge_checked", "model_pipeline_runs_checked",
    "model_nonoverlap_rejected", "stale_reloads_checked", "stale_rewrites",
    "stale_reloads_absolute", "stale_reloads_cwd-relative", "stale_reloads_workdir-relative",
    "stale_reloads_workdir-switch", "stale_reloads_workdir-absolute", "stale_reloads_home-relative",
    "stale_model_reloads_load_psf", "stale_model_reloads_fixed_pattern_noise",
    "stale_model_reloads_conversion_with_qe_map", "stale_model_placements_checked",
    "stale_reloads_cache-folder-set", "placed_model_runs_checked", "placed_nonoverlap_rejected",
    "placed_observable_fixed_pattern_noise_map", "placed_observable_conversion_with_qe_map_map",
    "placed_observable_persistence_trap_densities", "placed_observable_persistence_trap_capacities",
]
TIMEOUT = {"quick": 600, "thorough": 3000}

ALIGNS = ["center", "top_left", "top_right", "bottom_left", "bottom_right"]
DELIMS = {"tab": "\t", "space": " ", "comma": ",", "bar": "|", "semicolon": ";"}
EXH_BOUND = {"quick": 5, "thorough": 7}


# ====================================================================== plan
def plan(tier, seed):
    quick = tier == "quick"
    specs = []
    shard = 0

    def add(kind, count, n, **kw):
        nonlocal shard
        for k in range(count):
            specs.append({"shard": shard, "seed": seed, "kind": kind, "n": n, "part": k, "parts": count,
                          "tier": tier, **kw})
            shard += 1

    add("roundtrip", 5 if quick else 8, 240 if quick else 4000)
    add("place_exh", 3 if quick else 8, EXH_BOUND[tier] ** 4, bound=EXH_BOUND[tier])
    add("place_rand", 2 if quick else 8, 1500 if quick else 12000)
    add("model", 4 if quick else 8, 300 if quick else 5000)
    add("stale", 2 if quick else 8, 120 if quick else 1500)
    add("placed", 2 if quick else 4, 150 if quick else 2500)
    return specs


# ====================================================================== oracles (numpy only)
def oracle_place(inp, out_shape, oy, ox):
    """out[y, x] = inp[y - oy, x - ox] where that index exists, 0 elsewhere."""
    big_h, big_w = out_shape
    h, w = inp.shape
    out = np.zeros((big_h, big_w), dtype=np.float64)
    ys = np.arange(big_h)[:, None] - oy
    xs = np.arange(big_w)[None, :] - ox
    inside = (ys >= 0) & (ys < h) & (xs >= 0) & (xs < w)
    yy, xx = np.nonzero(inside)
    if yy.size:
        out[yy, xx] = inp[yy - oy, xx - ox]
    return out


def oracle_overlaps(in_shape, out_shape, oy, ox):
    h, w = in_shape
    big_h, big_w = out_shape
    return oy < big_h and oy + h > 0 and ox < big_w and ox + w > 0


def oracle_align_offsets(align, in_shape, out_shape):
    """Offsets (oy, ox) that the documentation allows for an alignment keyword.

    Pixel (0, 0) is the bottom-left pixel, 'top' is the last row, 'right' the last column."""
    h, w = in_shape
    big_h, big_w = out_shape
    dy, dx = big_h - h, big_w - w
    if align == "bottom_left":
        return [(0, 0)]
    if align == "bottom_right":
        return [(0, dx)]
    if align == "top_left":
        return [(dy, 0)]
    if align == "top_right":
        return [(dy, dx)]
    if align == "center":
        cy = sorted({dy // 2, -((-dy) // 2)})
        cx = sorted({dx // 2, -((-dx) // 2)})
        return [(a, b) for a in cy for b in cx]
    raise ValueError(align)


def size_relation(in_shape, out_shape):
    h, w = in_shape
    big_h, big_w = out_shape
    if h == big_h and w == big_w:
        return "equal"
    if h <= big_h and w <= big_w:
        return "smaller"
    if h >= big_h and w >= big_w:
        return "larger"
    return "mixed"


def same_values(a, b):
    """Exact equality of values (NaN equals NaN, byte order / dtype irrelevant)."""
    a = np.asarray(a)
    b = np.asarray(b)
    if a.shape != b.shape:
        return False
    if a.dtype.kind in "fc" or b.dtype.kind in "fc":
        a64 = a.astype(np.float64)
        b64 = b.astype(np.float64)
        return bool(np.all((a64 == b64) | (np.isnan(a64) & np.isnan(b64))))
    return bool(np.array_equal(a, b))


def first_difference(got, exp):
    got = np.asarray(got, dtype=np.float64)
    exp = np.asarray(exp, dtype=np.float64)
    bad = np.argwhere(~((got == exp) | (np.isnan(got) & np.isnan(exp))))
    if not len(bad):
        return "none"
    y, x = (int(v) for v in bad[0][:2]) if bad.shape[1] >= 2 else (int(bad[0][0]), 0)
    return f"{len(bad)} pixel(s) differ, first at [{y},{x}]: got {got[y, x]!r} expected {exp[y, x]!r}"


# ====================================================================== generators and file writers
def rand_float(rng):
    k = rng.random()
    if k < 0.30:
        return rng.uniform(-1e3, 1e3)
    if k < 0.50:
        return rng.uniform(0.0, 1.0)
    if k < 0.70:
        return rng.uniform(-1.0, 1.0) * 10.0 ** rng.randint(-30, 30)
    if k < 0.80:
        return float(rng.randint(-1000, 1000))
    return rng.uniform(0.0, 1e-2)


def rand_shape(rng, lo=1, hi=9):
    h, w = rng.randint(lo, hi), rng.randint(lo, hi)
    k = rng.random()
    if k < 0.25:
        h = 1
    elif k < 0.50:
        w = 1
    return h, w


def gen_array(rng, shape, kind, dtype=None):
    """kind: 'int' | 'float' | 'posint' | 'posfloat' | 'distinct' (arange+1 shuffled start)."""
    h, w = shape
    n = h * w
    if kind == "distinct":
        start = rng.randint(1, 50)
        arr = (np.arange(n, dtype=np.int64) + start).reshape(h, w)
        return arr.astype(dtype or np.float64)
    if n > 2000:  # large arrays: numpy generator seeded from the case rng (fast)
        g = np.random.default_rng(rng.getrandbits(64))
        if kind in ("int", "posint"):
            lo = 0 if kind == "posint" else -30000
            return g.integers(lo, 30000, size=(h, w)).astype(dtype or np.int64)
        vals = g.uniform(0.0 if kind == "posfloat" else -1.0, 1.0, size=(h, w)) * 10.0 ** g.integers(-8, 8, size=(h, w))
        return vals.astype(dtype or np.float64)
    if kind in ("int", "posint"):
        info = np.iinfo(dtype or np.int64)
        lo = max(info.min, -(2 ** 40)) if kind == "int" else 0
        hi = min(info.max, 2 ** 40)
        small = rng.random() < 0.5
        vals = [rng.randint(max(lo, -999), min(hi, 999)) if small else rng.randint(lo, hi) for _ in range(n)]
        return np.array(vals, dtype=dtype or np.int64).reshape(h, w)
    vals = [rand_float(rng) for _ in range(n)]
    if kind == "posfloat":
        vals = [abs(v) for v in vals]
    return np.array(vals, dtype=np.float64).astype(dtype or np.float64).reshape(h, w)


def fmt_value(v, style):
    if isinstance(v, (int, np.integer)):
        return repr(int(v))
    return repr(float(v)) if style == "repr" else "%.17g" % float(v)


def text_of(arr, sep, style="repr", trailing_newline=True):
    lines = [sep.join(fmt_value(v, style) for v in row) for row in arr.tolist()] if arr.size <= 2000 else \
        [sep.join(fmt_value(v, style) for v in row) for row in arr]
    return "\n".join(lines) + ("\n" if trailing_newline else "")


def write_bytes_of(fmt, arr, **kw):
    """Return a function(path) that writes ``arr`` in format ``fmt`` (harness-side, no pyxel)."""
    def w_npy(path):
        with open(path, "wb") as fh:
            np.save(fh, arr)

    def w_fits(path):
        # A FITS file holds its image in the primary HDU or -- the multi-extension layout of most
        # observatory pipelines -- in an IMAGE extension behind a primary HDU without data; a binary
        # table (catalogue, bad-pixel list ...) may follow.  Every layout written here holds ONE image.
        from astropy.io import fits
        layout = kw.get("layout") or "primary"
        image_hdu = fits.PrimaryHDU(arr) if layout.startswith("primary") else fits.ImageHDU(arr, name="SCI")
        hdus = [image_hdu] if layout.startswith("primary") else [fits.PrimaryHDU(), image_hdu]
        for hdu in hdus:
            for key, val in (kw.get("cards") or {}).items():
                hdu.header[key] = val
        if layout.endswith("+table"):
            hdus.append(fits.BinTableHDU.from_columns(
                [fits.Column(name="ID", format="J", array=np.arange(3, dtype=np.int32)),
                 fits.Column(name="FLUX", format="D", array=np.array([1.5, 2.5, 3.5]))], name="CAT"))
        fits.HDUList(hdus).writeto(path, overwrite=True)

    def w_fits_table(path):
        from astropy.table import Table
        names = [f"c{i}" for i in range(arr.shape[1])]
        Table(arr, names=names).write(path, format="fits", overwrite=True)

    def w_text(path):
        with open(path, "w") as fh:
            fh.write(text_of(arr, kw["sep"], kw.get("style", "repr"), kw.get("trailing_newline", True)))

    return {"npy": w_npy, "fits": w_fits, "fits_table": w_fits_table, "text": w_text}[fmt]


def write_version(path, writer, how, rec=None, avoid=None):
    """(Re)write ``path``; repeat until the file system shows a modification time that differs
    from the previous version's (coarse-grained clocks can repeat a time stamp within a tick).

    ``avoid``: set of modification times of earlier versions that live under *other* real paths but are
    reached through the same file-name argument (working directory switched between runs); the time
    stamp of the new version is kept distinct from those too and added to the set."""
    prev = os.stat(path).st_mtime_ns if os.path.exists(path) else None
    for attempt in range(400):
        if how == "rename" and prev is not None:
            tmp = path + ".new"
            writer(tmp)
            os.replace(tmp, path)
        else:
            writer(path)
        now = os.stat(path).st_mtime_ns
        if now != prev and (avoid is None or now not in avoid):
            if avoid is not None:
                avoid.add(now)
            return
        if rec is not None:
            rec.count("stale_rewrite_retries_same_mtime")
        time.sleep(0.003)
    raise RuntimeError("file system does not record distinct modification times")


FITS_LAYOUTS = ["primary", "extension", "primary+table", "extension+table"]


def rand_fits_layout(rng):
    """Where the (single) image of a FITS file is stored: half of the files use the primary HDU."""
    return rng.choice(["primary", "primary", "primary+table", "extension", "extension", "extension+table"])


def fits_label(layout):
    return "fits" if layout.startswith("primary") else "fits-extension"


def as_arg(path, rng):
    """File names are given as str or as pathlib.Path."""
    if rng.random() < 0.4:
        import pathlib
        return pathlib.Path(path)
    return path


# ====================================================================== round trips
TEXT_FORMATS = [(suffix, d) for suffix in (".txt", ".data", ".csv") for d in DELIMS]
RT_FORMATS = ([("npy", None)] * 3 + [("fits", lay) for lay in ("primary", "extension", "primary", "extension+table",
                                                                  "primary+table")] + [("fits_table", None)] * 2
              + [("text", sd) for sd in TEXT_FORMATS] + [("text", (".txt", "comma_space")), ("text", (".csv", "comma_space"))]
              + [("npy_upper", None), ("fits_upper", None), ("text", (".TXT", "tab")), ("text", (".CSV", "comma"))])
BIN_DTYPES = ["float64", "float64", "float32", "int16", "int32", "int64", "uint8", "uint16", ">f8", ">i4"]
FITS_DTYPES = ["float64", "float64", "float32", "int16", "int32", "int64", "uint8", "uint16"]
SPECIALS = [np.nan, np.inf, -np.inf, -0.0, 5e-324, 1.7976931348623157e308, 2.2250738585072014e-308]


def rt_compare(rec, loader, fmt_label, got, arr, case, index, text_float=False):
    got = np.asarray(got)
    if got.shape != arr.shape:
        rec.violation(f"C20:{loader}:{fmt_label}:shape-differs",
                      f"file holds an array of shape {arr.shape}, {loader} returned shape {got.shape}", case, index)
        return False
    if not same_values(got, arr):
        mech = f"C20:{loader}:{fmt_label}:values-differ"
        if text_float and loader == "load_table":
            with np.errstate(all="ignore"):
                rel = np.nanmax(np.abs(got.astype(float) - arr) / np.maximum(np.abs(arr), 1e-300))
            if rel < 1e-9:
                mech = "C20:load_table:float-not-round-trip"
        rec.violation(mech, f"{loader} returned other values than written: {first_difference(got, arr)}", case, index)
        return False
    return True


def run_roundtrip(spec, rec):
    from pyxel.inputs import load_header, load_image, load_table

    n_large = 2 if spec["tier"] == "quick" else 6
    for i in range(spec["n"]):
        if not rec.wanted(i):
            continue
        rng = rec.rng(i)
        fmt, extra = RT_FORMATS[(i * spec["parts"] + spec["part"]) % len(RT_FORMATS)]
        large = i < n_large
        large_shapes = [(200, 300), (120, 75), (2500, 1), (300, 200)] + ([] if fmt == "fits_table" else [(1, 3000)])
        shape = rng.choice(large_shapes) if large else rand_shape(rng)
        kind = rng.choice(["int", "float", "float"])
        case = {"format": fmt, "shape": list(shape), "kind": kind}
        upper = fmt.endswith("_upper")
        base = fmt.replace("_upper", "")
        name = os.path.join(rec.tmp, f"rt_{i}")
        loaders = []
        text_float = False
        cards = None
        if base == "npy":
            dtype = rng.choice(BIN_DTYPES) if kind == "int" else rng.choice(["float64", "float64", "float32", ">f8"])
            if kind == "int" and np.dtype(dtype).kind == "f":
                dtype = "int64"
            arr = gen_array(rng, shape, kind, dtype)
            if kind == "float" and not large and rng.random() < 0.2:
                arr[rng.randrange(shape[0]), rng.randrange(shape[1])] = rng.choice(SPECIALS)
            path = name + (".NPY" if upper else ".npy")
            write_bytes_of("npy", arr)(path)
            loaders = ["load_image", "load_table"]
            label = "npy"
            case["dtype"] = str(arr.dtype)
        elif base == "fits":
            dtype = rng.choice([d for d in FITS_DTYPES if np.dtype(d).kind != "f"]) if kind == "int" \
                else rng.choice(["float64", "float64", "float32"])
            arr = gen_array(rng, shape, kind, dtype)
            if kind == "float" and not large and rng.random() < 0.2:
                arr[rng.randrange(shape[0]), rng.randrange(shape[1])] = rng.choice(SPECIALS)
            cards = {"EXPTIME": rng.choice([12.5, 0.001, 300.0]), "OBJECT": rng.choice(["abc", "NGC 42", "flat"]),
                     "NREADS": rng.randint(1, 99), "VFFLAG": rng.random() < 0.5}
            path = name + (".FITS" if upper else ".fits")
            layout = extra or rand_fits_layout(rng)
            write_bytes_of("fits", arr, cards=cards, layout=layout)(path)
            loaders = ["load_image", "load_header"]
            label = fits_label(layout)
            case["dtype"] = str(arr.dtype)
            case["fits_layout"] = layout
            rec.observe("rt_fits_layouts", layout)
        elif base == "fits_table":
            dtype = rng.choice(["int16", "int32", "int64", "uint8"]) if kind == "int" else rng.choice(["float64", "float32"])
            arr = gen_array(rng, shape, kind, dtype)
            path = name + ".fits"
            write_bytes_of("fits_table", arr)(path)
            loaders = ["load_table"]
            label = "fits-table"
            case["dtype"] = str(arr.dtype)
        else:
            suffix, dname = extra
            sep = ", " if dname == "comma_space" else DELIMS[dname]
            arr = gen_array(rng, shape, kind)
            style = rng.choice(["repr", "17g"])
            nl = rng.random() < 0.85
            path = name + suffix
            write_bytes_of("text", arr, sep=sep, style=style, trailing_newline=nl)(path)
            loaders = ["load_table"] if suffix.lower() == ".csv" else ["load_image", "load_table"]
            label = f"text-{dname}"
            text_float = kind == "float"
            case.update({"suffix": suffix, "delimiter": dname, "style": style, "trailing_newline": nl})
            rec.observe("text_suffixes", suffix)
        if arr.size <= 40:
            case["values"] = [[repr(v) for v in row] for row in arr.tolist()]
        one_dim = "1x1" if arr.size == 1 else "one-row" if shape[0] == 1 else "one-column" if shape[1] == 1 else "2d"
        rec.observe("rt_shape_classes", one_dim)
        for loader in loaders:
            arg = as_arg(path, rng)
            try:
                if loader == "load_image":
                    got = load_image(arg)
                elif loader == "load_table":
                    got = load_table(arg).to_numpy()
                else:
                    header = load_header(arg)
            except Exception as exc:  # noqa: BLE001
                rec.violation(f"C20:{loader}:{label}:{one_dim}:unexpected-exception",
                              f"{type(exc).__name__}: {str(exc)[:300]}", case, i)
                continue
            if loader == "load_header":
                rec.count("rt_load_header_checked")
                if header is None:
                    rec.violation(f"C20:load_header:{label}:none-returned", "no header for a FITS file", case, i)
                    continue
                for key, val in cards.items():
                    if key not in header or header[key] != val:
                        rec.violation(f"C20:load_header:{label}:card-differs",
                                      f"card {key}: written {val!r}, read {header.get(key)!r}", case, i)
                        break
                continue
            rec.count(f"rt_{loader}_checked")
            rec.observe(f"rt_formats_{loader}", label)
            rt_compare(rec, loader, label, got, arr, case, i, text_float)
        rec.observe("rt_dtypes", str(arr.dtype))
        rec.case(("rt", fmt, extra, list(shape), kind, i, spec["part"]), arr.size > 1, sample=case if arr.size <= 12 else None)
        os.remove(path)


# ====================================================================== placements
def check_placement(rec, call, inp, out_shape, offsets, must_overlap, mech, case, index):
    """Run ``call`` (real code) and compare with the oracle.

    offsets: acceptable (oy, ox) list.  must_overlap: True -> an exception is a violation,
    False -> the input does not reach the output: must be rejected, None -> documented refusal possible.
    Returns 'ok' | 'rejected' | 'refused' | 'violation'."""
    out_shape = tuple(out_shape)
    try:
        got = call()
    except Exception as exc:  # noqa: BLE001
        if must_overlap is False:
            return "rejected"
        if must_overlap is None:
            rec.count("refused")
            return "refused"
        import traceback
        rec.violation(f"{mech}:overlapping-input-rejected",
                      f"{type(exc).__name__}: {str(exc)[:200]} :: {traceback.format_exc()[-500:]}", case, index)
        return "violation"
    if must_overlap is False:
        rec.violation(f"{mech}:non-overlapping-input-accepted",
                      f"input {inp.shape} at {offsets[0]} does not reach the output {out_shape} but a result was "
                      f"returned (sum={float(np.sum(got))!r})", case, index)
        return "violation"
    got = np.asarray(got)
    if got.shape != out_shape:
        rec.violation(f"{mech}:output-shape-differs", f"result shape {got.shape}, requested {out_shape}", case, index)
        return "violation"
    exps = [oracle_place(inp, out_shape, oy, ox) for oy, ox in offsets]
    rec.count("place_pixels_compared", got.size)
    if not any(same_values(got, exp) for exp in exps):
        rec.violation(f"{mech}:pixel-differs",
                      f"input {inp.shape} -> output {out_shape}, acceptable offsets {offsets}: "
                      f"{first_difference(got, exps[0])}; got={got.tolist() if got.size <= 36 else '...'} "
                      f"expected={exps[0].tolist() if got.size <= 36 else '...'}", case, index)
        return "violation"
    return "ok"


def smaller_class(in_shape, out_shape):
    h, w = in_shape
    big_h, big_w = out_shape
    if h >= big_h and w >= big_w:
        return "not-smaller"
    if h < big_h and w < big_w:
        return "smaller-both"
    return "smaller-one"


def run_place_exh(spec, rec):
    from pyxel.util import fit_into_array

    bound = spec["bound"]
    sizes = range(1, bound + 1)
    pairs = list(itertools.product(sizes, sizes, sizes, sizes))
    for p, (h, w, big_h, big_w) in enumerate(pairs):
        if p % spec["parts"] != spec["part"] or not rec.wanted(p):
            continue
        rng = rec.rng(p)
        inp = gen_array(rng, (h, w), "distinct", np.float64 if p % 2 else np.int64)
        out_shape = (big_h, big_w)
        base = {"in_shape": [h, w], "out_shape": [big_h, big_w], "input": inp.tolist()}
        rel = size_relation((h, w), out_shape)
        rec.observe("place_size_relations", rel)
        for oy in range(-(h + 1), big_h + 2):
            for ox in range(-(w + 1), big_w + 2):
                case = dict(base, offset=[oy, ox])
                overlap = oracle_overlaps((h, w), out_shape, oy, ox)
                res = check_placement(
                    rec, lambda: fit_into_array(inp, out_shape, relative_position=(oy, ox)),
                    inp, out_shape, [(oy, ox)], overlap, "C20:fit_into_array:offset", case, p)
                rec.count("place_offset_checked")
                if res == "rejected":
                    rec.count("place_nonoverlap_rejected")
                rec.case(("exh", h, w, big_h, big_w, oy, ox), not (rel == "equal" and oy == 0 and ox == 0))
        for align in ALIGNS:
            offsets = oracle_align_offsets(align, (h, w), out_shape)
            for allow in (True, False):
                case = dict(base, align=align, allow_smaller_array=allow)
                must = True
                if not allow and smaller_class((h, w), out_shape) != "not-smaller":
                    must = None
                kwargs = {"align": align}
                if not allow:
                    kwargs["allow_smaller_array"] = False
                res = check_placement(rec, lambda: fit_into_array(inp, out_shape, **kwargs),
                                      inp, out_shape, offsets, must, f"C20:fit_into_array:align-{align}", case, p)
                rec.count("place_align_checked")
                rec.observe("place_aligns", align)
                if must is None:
                    rec.count("allow_smaller_false_refused" if res == "refused" else "allow_smaller_false_accepted")
                rec.case(("exh", h, w, big_h, big_w, align, allow), rel != "equal")
        rec.count("exh_pairs_done")


def rand_offset(rng, size_in, size_out):
    """Mostly overlapping, sometimes just outside, sometimes far outside."""
    k = rng.random()
    if k < 0.70:
        return rng.randint(-(size_in - 1), size_out - 1)
    if k < 0.85:
        return rng.choice([-size_in, size_out, -(size_in + 1), size_out + 1])
    return rng.choice([-1, 1]) * rng.randint(size_in + size_out, 3 * (size_in + size_out))


def run_place_rand(spec, rec):
    from pyxel.util import fit_into_array, load_cropped_and_aligned_image

    n_large = 3 if spec["tier"] == "quick" else 12
    for i in range(spec["n"]):
        if not rec.wanted(i):
            continue
        rng = rec.rng(i)
        large = i < n_large
        if large:
            in_shape = rng.choice([(200, 300), (64, 512), (301, 7), (150, 150)])
            out_shape = rng.choice([(100, 100), (256, 256), (450, 20), (33, 600)])
        else:
            hi = rng.choice([6, 12, 40])
            in_shape = rand_shape(rng, 1, hi)
            out_shape = rand_shape(rng, 1, hi) if rng.random() < 0.8 else (rng.randint(1, hi), rng.randint(1, hi))
        h, w = in_shape
        big_h, big_w = out_shape
        inp = gen_array(rng, in_shape, rng.choice(["distinct", "distinct", "float", "int"]))
        use_align = rng.random() < 0.3
        allow = rng.random() < 0.85
        via_file = i % 2 == 1
        case = {"in_shape": list(in_shape), "out_shape": list(out_shape), "via_file": via_file,
                "allow_smaller_array": allow}
        if inp.size <= 36:
            case["input"] = inp.tolist()
        if use_align:
            align = rng.choice(ALIGNS)
            offsets = oracle_align_offsets(align, in_shape, out_shape)
            overlap = True
            case["align"] = align
            mech = f"align-{align}"
        else:
            align = None
            oy, ox = rand_offset(rng, h, big_h), rand_offset(rng, w, big_w)
            offsets = [(oy, ox)]
            overlap = oracle_overlaps(in_shape, out_shape, oy, ox)
            case["offset"] = [oy, ox]
            mech = "offset"
        must = overlap
        if not allow and smaller_class(in_shape, out_shape) != "not-smaller":
            must = None  # documented refusal (also legitimately raised before the overlap test)
        path = None
        if via_file:
            fmt = rng.choice(["npy", "npy", "fits", "text"])
            dname = rng.choice(list(DELIMS))
            path = os.path.join(rec.tmp, f"pl_{i}" + {"npy": ".npy", "fits": ".fits", "text": rng.choice([".txt", ".data"])}[fmt])
            layout = rand_fits_layout(rng) if fmt == "fits" else None
            write_bytes_of(fmt, inp, sep=DELIMS[dname], layout=layout)(path)
            case["file_format"] = fits_label(layout) if layout else fmt if fmt != "text" else f"text-{dname}"
            rec.observe("place_file_formats", case["file_format"])
            arg = as_arg(path, rng)
            kwargs = {"shape": tuple(out_shape), "filename": arg}
            if align:
                kwargs["align"] = align
            else:
                kwargs.update(position_y=offsets[0][0], position_x=offsets[0][1])
            if not allow:
                kwargs["allow_smaller_array"] = False
            call = lambda: load_cropped_and_aligned_image(**kwargs)  # noqa: E731
            mech = f"C20:load_cropped_and_aligned_image:{mech}"
            rec.count("lcai_checked")
        else:
            kwargs = {"align": align} if align else {"relative_position": offsets[0]}
            if not allow:
                kwargs["allow_smaller_array"] = False
            call = lambda: fit_into_array(inp, tuple(out_shape), **kwargs)  # noqa: E731
            mech = f"C20:fit_into_array:{mech}"
        res = check_placement(rec, call, inp, out_shape, offsets, must, mech, case, i)
        rec.count("place_align_checked" if align else "place_offset_checked")
        if align:
            rec.observe("place_aligns", align)
        if res == "rejected":
            rec.count("place_nonoverlap_rejected")
        rel = size_relation(in_shape, out_shape)
        rec.observe("place_size_relations", rel)
        rec.case(("rand", list(in_shape), list(out_shape), offsets[0], align, via_file, allow),
                 not (rel == "equal" and offsets == [(0, 0)]), sample=case if inp.size <= 12 else None)
        if path:
            os.remove(path)


# ====================================================================== loading models
TIME_SCALES = [1.0, 0.001, 2.0, 0.5, 10.0, 0.25]
MULTIPLIERS = [1.0, 2.0, 0.25, 3.0, 1.5]
FUNC_LOAD_IMAGE = "pyxel.models.photon_collection.load_image"
FUNC_LOAD_CHARGE = "pyxel.models.charge_generation.load_charge"


def close(got, exp):
    got = np.asarray(got, dtype=np.float64)
    exp = np.asarray(exp, dtype=np.float64)
    return got.shape == exp.shape and bool(np.allclose(got, exp, rtol=1e-11, atol=0.0)) \
        and bool(np.all((exp != 0) | (got == 0)))


def matches_any(got, inp, out_shape, offsets, factor):
    return any(close(got, oracle_place(inp, out_shape, oy, ox) * factor) for oy, ox in offsets)


def proportional_any(got, inp, out_shape, offsets):
    """got == k * placement for one positive k (gain conversions are not C20's business)."""
    got = np.asarray(got, dtype=np.float64)
    for oy, ox in offsets:
        exp = oracle_place(inp, out_shape, oy, ox)
        if got.shape != exp.shape or not np.all((exp != 0) | (got == 0)):
            continue
        nz = exp != 0
        if not nz.any():
            continue
        ratio = got[nz] / exp[nz]
        if ratio.min() > 0 and np.allclose(ratio, ratio[0], rtol=1e-9, atol=0.0):
            return True
    return False


def tree_var(tree, name):
    for key in (name, f"/bucket/{name}"):
        try:
            return np.asarray(tree[key].values)
        except KeyError:
            continue
    raise KeyError(name)


def model_write_input(rec, rng, stem, inp):
    fmt = rng.choice(["npy", "npy", "fits", "text"])
    dname = rng.choice(list(DELIMS))
    path = os.path.join(rec.tmp, stem + {"npy": ".npy", "fits": ".fits", "text": rng.choice([".txt", ".data"])}[fmt])
    layout = rand_fits_layout(rng) if fmt == "fits" else None
    write_bytes_of(fmt, inp, sep=DELIMS[dname], layout=layout)(path)
    return path, (fits_label(layout) if layout else fmt if fmt != "text" else f"text-{dname}")


def run_model(spec, rec):
    import pyxel
    from pyxel.exposure import Exposure, Readout
    from pyxel.models.charge_generation import load_charge
    from pyxel.models.photon_collection import load_image

    for i in range(spec["n"]):
        if not rec.wanted(i):
            continue
        rng = rec.rng(i)
        det_kind = rng.choice(["ccd", "ccd", "cmos", "cmos", "apd", "mkid"])
        rows, cols = rng.randint(1, 8), rng.randint(1, 8)
        in_shape = rand_shape(rng, 1, 10)
        h, w = in_shape
        out_shape = (rows, cols)
        inp = gen_array(rng, in_shape, rng.choice(["distinct", "distinct", "posfloat", "posint"]))
        path, file_label = model_write_input(rec, rng, f"mo_{i}", inp)
        use_align = rng.random() < 0.35
        if use_align:
            align = rng.choice(ALIGNS)
            offsets = oracle_align_offsets(align, in_shape, out_shape)
            overlap = True
            position = None
        else:
            align = None
            position = (rand_offset(rng, h, rows), rand_offset(rng, w, cols))
            offsets = [position]
            overlap = oracle_overlaps(in_shape, out_shape, *position)
        time_scale = rng.choice(TIME_SCALES)
        multiplier = rng.choice(MULTIPLIERS)
        route = ["direct", "direct", "pipeline"][i % 3]
        which = ["load_image", "load_charge"][(i // 3) % 2] if route == "direct" else "both"
        convert = which == "load_image" and rng.random() < 0.15
        n_times = rng.randint(1, 3)
        times = sorted(rng.sample([0.5, 1.0, 1.5, 2.0, 3.0, 4.5, 7.0, 10.0, 12.5], n_times))
        case = {"detector": det_kind, "det_shape": [rows, cols], "in_shape": list(in_shape), "file": file_label,
                "align": align, "position": list(position) if position else None, "time_scale": time_scale,
                "multiplier": multiplier, "route": route, "model": which, "times": times,
                "convert_to_photons": convert}
        if inp.size <= 36:
            case["input"] = inp.tolist()
        place_kw = {"align": align} if align else {"position": position}
        cls = f"align-{align}" if align else "position"
        rel = size_relation(in_shape, out_shape)
        rec.observe("model_size_relations", rel)
        rec.observe("model_detectors", det_kind)
        rec.observe("model_file_formats", file_label)
        dspec = build.default_detector_spec(det_kind, rows, cols)
        try:
            if route == "direct":
                time_step = rng.choice([1.0, 0.5, 2.0, 3.0, 0.001, 7.5])
                case["time_step"] = time_step
                det = build.make_detector(dspec)
                det.set_readout(times=times)
                det.time_step = time_step
                arg = as_arg(path, rng) if which == "load_charge" else path
                if which == "load_image":
                    kw = dict(place_kw, image_file=arg, time_scale=time_scale, multiplier=multiplier)
                    if convert:
                        kw.update(convert_to_photons=True, bit_resolution=rng.choice([8, 12, 16]))
                    call = lambda: load_image(det, **kw)  # noqa: E731
                    factor = time_step / time_scale * multiplier
                    read = lambda: det.photon.array  # noqa: E731
                else:
                    kw = dict(place_kw, filename=arg, time_scale=time_scale)
                    call = lambda: load_charge(det, **kw)  # noqa: E731
                    factor = time_step / time_scale
                    read = lambda: det.charge.array  # noqa: E731
                mech = f"C20:model-{which}:direct:{cls}"
                try:
                    call()
                except Exception as exc:  # noqa: BLE001
                    if overlap:
                        raise
                    rec.count("model_nonoverlap_rejected")
                    rec.count(f"model_{which}_checked")
                    rec.case(("model", i, spec["part"], "rejected"), True)
                    del exc
                    continue
                if not overlap:
                    rec.violation(f"{mech}:non-overlapping-input-accepted",
                                  f"input {in_shape} at {position} does not reach the detector {out_shape}", case, i)
                else:
                    got = read()
                    ok = proportional_any(got, inp, out_shape, offsets) if convert \
                        else matches_any(got, inp, out_shape, offsets, factor)
                    if not ok:
                        exp = oracle_place(inp, out_shape, *offsets[0]) * factor
                        rec.violation(f"{mech}:bucket-differs",
                                      f"{which} bucket != placement x {factor!r}"
                                      f"{' (proportionality only: convert_to_photons)' if convert else ''}: "
                                      f"{first_difference(got, exp)}; got={np.asarray(got).tolist() if np.size(got) <= 30 else '...'}",
                                      case, i)
                rec.count(f"model_{which}_checked")
            else:
                args_img = dict(place_kw, image_file=path, time_scale=time_scale, multiplier=multiplier)
                ts_charge = rng.choice(TIME_SCALES)
                case["time_scale_charge"] = ts_charge
                args_chg = dict(place_kw, filename=path, time_scale=ts_charge)
                for a in (args_img, args_chg):
                    if "position" in a:
                        a["position"] = list(a["position"])
                pspec = {"photon_collection": [{"name": "load_image", "func": FUNC_LOAD_IMAGE, "arguments": args_img,
                                                "enabled": True}],
                         "charge_generation": [{"name": "load_charge", "func": FUNC_LOAD_CHARGE, "arguments": args_chg,
                                                "enabled": True}],
                         "readout_electronics": [{"name": "image_writer", "func": "vf.probes.writer",
                                                  "arguments": {"plan": {"*": ["image"]}, "seed": 1}, "enabled": True}]}
                det = build.make_detector(dspec)
                mech = f"C20:model-pipeline:{cls}"
                try:
                    tree = pyxel.run_mode(mode=Exposure(readout=Readout(times=times)), detector=det,
                                          pipeline=build.make_pipeline(pspec))
                except Exception as exc:  # noqa: BLE001
                    if overlap:
                        raise
                    rec.count("model_nonoverlap_rejected")
                    rec.count("model_pipeline_runs_checked")
                    rec.case(("model", i, spec["part"], "rejected"), True)
                    del exc
                    continue
                rec.count("model_pipeline_runs_checked")
                if not overlap:
                    rec.violation(f"{mech}:non-overlapping-input-accepted",
                                  f"input {in_shape} at {position} does not reach the detector {out_shape}", case, i)
                else:
                    steps = [times[0]] + [b - a for a, b in zip(times, times[1:])]
                    photon = tree_var(tree, "photon")
                    charge = tree_var(tree, "charge")
                    failed = set()
                    for k, step in enumerate(steps):
                        for bucket, data, factor in (("photon", photon, step / time_scale * multiplier),
                                                     ("charge", charge, step / ts_charge)):
                            rec.count("model_pipeline_buckets_checked")
                            if bucket not in failed and not matches_any(data[k], inp, out_shape, offsets, factor):
                                failed.add(bucket)
                                exp = oracle_place(inp, out_shape, *offsets[0]) * factor
                                rec.violation(f"{mech}:{bucket}-bucket-differs",
                                              f"readout {k} (step {step!r}): {bucket} != placement x {factor!r}: "
                                              f"{first_difference(data[k], exp)}", case, i)
                    last = steps[-1]
                    if not matches_any(det.photon.array, inp, out_shape, offsets, last / time_scale * multiplier):
                        rec.violation(f"{mech}:detector-photon-differs",
                                      "photon bucket of the detector after the run != placement x last step factor",
                                      case, i)
        except Exception as exc:  # noqa: BLE001
            import traceback
            rec.violation(f"C20:model-{which}:{route}:{cls}:unexpected-exception",
                          f"{type(exc).__name__}: {str(exc)[:300]} :: {traceback.format_exc()[-700:]}", case, i)
        rec.case(("model", i, spec["part"], det_kind, rows, cols, list(in_shape), align, position, route, which),
                 True, sample=case if inp.size <= 12 else None)
        if os.path.exists(path):
            os.remove(path)


# ====================================================================== models that place their file(s)
# Every model of the library that fits one or SEVERAL input files onto the detector, each file with its own
# 'position' / 'align' arguments.  Reference (metamorphic, harness side): the same model on the same content of the
# detector with every file replaced by a detector-shaped file that holds the oracle placement of the input, placed
# at the default position -- "every detector pixel receives the input pixel that the requested offset or alignment
# keyword places there and zero where the input does not reach", for each input of the model independently.
PLACED_MODELS = {
    # name: (inputs [(label, file argument, position argument, align argument, value kind)], smaller input allowed,
    #        detectors, bucket holding the content of the detector before the run)
    "fixed_pattern_noise": ([("map", "filename", "position", "align", "gain")], True, ["ccd", "cmos"], "pixel"),
    "conversion_with_qe_map": ([("map", "filename", "position", "align", "unit")], True, ["ccd", "cmos"], "photon"),
    "persistence": ([("trap_densities", "trap_densities_filename", "trap_densities_position",
                      "trap_densities_align", "unit")], False, ["cmos"], "pixel"),
    "persistence+capacities": ([("trap_densities", "trap_densities_filename", "trap_densities_position",
                                 "trap_densities_align", "unit"),
                                ("trap_capacities", "trap_capacities_filename", "trap_capacities_position",
                                 "trap_capacities_align", "capacity")], False, ["cmos"], "pixel"),
}
PLACED_SCHEDULE = ["persistence+capacities", "fixed_pattern_noise", "persistence+capacities", "conversion_with_qe_map",
                   "persistence", "persistence+capacities"]


def placed_values(rng, shape, kind):
    lo, hi = {"unit": (0.05, 0.95), "gain": (0.5, 1.5), "capacity": (5.0, 3000.0)}[kind]
    return np.array([[rng.uniform(lo, hi) for _ in range(shape[1])] for _ in range(shape[0])], dtype=np.float64)


def run_placed(spec, rec):
    from pyxel.models.charge_collection import fixed_pattern_noise, persistence
    from pyxel.models.charge_generation import conversion_with_qe_map

    def execute(mname, dspec, state, files, places, extra, time_step, n_calls):
        """Run the real model; ``files``: label -> file name, ``places``: label -> {argument: value}."""
        inputs = PLACED_MODELS[mname][0]
        det = build.make_detector(dspec)
        det.set_readout(times=[1.0])
        det.time_step = time_step
        kw = dict(extra)
        for label, a_file, _a_pos, _a_align, _kind in inputs:
            kw[a_file] = files[label]
            kw.update(places.get(label) or {})
        if mname == "fixed_pattern_noise":
            det.pixel.array = state.copy()
            fixed_pattern_noise(det, **kw)
            return [np.array(det.pixel.array)]
        if mname == "conversion_with_qe_map":
            det.photon.array = state.copy()
            conversion_with_qe_map(det, binomial_sampling=False, **kw)
            return [np.array(det.charge.array)]
        out = []
        for _ in range(n_calls):     # the model keeps the trapped charge from call to call
            det.pixel.array = state.copy()
            persistence(det, **kw)
            out.append(np.array(det.pixel.array))
            out.append(np.array(det.persistence.trapped_charge_array))
        return out

    def same_results(a, b):
        return len(a) == len(b) and all(
            x.shape == y.shape and bool(np.allclose(x, y, rtol=1e-11, atol=0.0)) for x, y in zip(a, b))

    for i in range(spec["n"]):
        if not rec.wanted(i):
            continue
        rng = rec.rng(i)
        mname = PLACED_SCHEDULE[(i + spec["part"]) % len(PLACED_SCHEDULE)]
        inputs, allow_smaller, det_kinds, bucket = PLACED_MODELS[mname]
        model = mname.split("+")[0]
        det_kind = rng.choice(det_kinds)
        rows, cols = rng.randint(1, 7), rng.randint(1, 7)
        out_shape = (rows, cols)
        dspec = build.default_detector_spec(det_kind, rows, cols)
        time_step = rng.choice([1.0, 2.0, 0.5, 5.0])
        n_calls = rng.randint(1, 3)
        extra = {}
        if model == "persistence":
            n_traps = rng.randint(1, 3)
            extra = {"trap_time_constants": [rng.choice([0.5, 1.0, 3.0, 10.0, 100.0]) for _ in range(n_traps)],
                     "trap_proportions": [round(rng.uniform(0.1, 1.0), 3) for _ in range(n_traps)]}
            state = np.array([[rng.uniform(1e3, 1e4) for _ in range(cols)] for _ in range(rows)])
        else:
            state = np.array([[rng.uniform(1.0, 100.0) for _ in range(cols)] for _ in range(rows)])
        as_list = rng.random() < 0.5      # a position comes as a list from YAML, as a tuple from Python
        case = {"model": mname, "detector": det_kind, "det_shape": [rows, cols], "time_step": time_step,
                "calls": n_calls, "arguments": {k: v for k, v in extra.items()}, "inputs": {}}
        files, places, arrays, offsets, overlaps, smaller = {}, {}, {}, {}, {}, {}
        for label, _a_file, a_pos, a_align, kind in inputs:
            k = rng.random()
            if allow_smaller or k < 0.12:
                in_shape = rand_shape(rng, 1, 10)
            else:   # at least as large as the detector (the model refuses smaller maps)
                in_shape = (rows + rng.choice([0, 0, 1, 2, 3, 5]), cols + rng.choice([0, 0, 1, 2, 4, 6]))
            h, w = in_shape
            arr = placed_values(rng, in_shape, kind)
            path, file_label = model_write_input(rec, rng, f"pm_{i}_{label}", arr)
            how = rng.random()
            if how < 0.25:
                align = rng.choice(ALIGNS)
                places[label] = {a_align: align}
                offsets[label] = oracle_align_offsets(align, in_shape, out_shape)
                overlaps[label] = True
                placement = f"align-{align}"
            elif how < 0.32:
                places[label] = {}      # default position
                offsets[label] = [(0, 0)]
                overlaps[label] = True
                placement = "default"
            else:
                if h >= rows and w >= cols and rng.random() < 0.6:   # the input covers the whole detector
                    pos = (rng.randint(rows - h, 0), rng.randint(cols - w, 0))
                else:
                    pos = (rand_offset(rng, h, rows), rand_offset(rng, w, cols))
                places[label] = {a_pos: list(pos) if as_list else pos}
                offsets[label] = [pos]
                overlaps[label] = oracle_overlaps(in_shape, out_shape, *pos)
                placement = list(pos)
            files[label] = as_arg(path, rng)
            arrays[label] = arr
            smaller[label] = smaller_class(in_shape, out_shape) != "not-smaller"
            case["inputs"][label] = {"shape": list(in_shape), "file": file_label, "placement": placement,
                                     "file_name_type": type(files[label]).__name__}
            if arr.size <= 30:
                case["inputs"][label]["values"] = arr.tolist()
            rec.observe("placed_size_relations", size_relation(in_shape, out_shape))
            rec.observe("placed_file_formats", file_label)
        rec.observe("placed_models", mname)
        overlap_all = all(overlaps.values())
        refusable = not allow_smaller and any(smaller.values())
        mech = f"C20:placed-model:{mname}"
        sig = ("placed", i, spec["part"], mname, rows, cols, [case["inputs"][l]["shape"] for l in case["inputs"]],
               [str(case["inputs"][l]["placement"]) for l in case["inputs"]])
        created = [str(f) for f in files.values()]
        try:
            try:
                got = execute(mname, dspec, state, files, places, extra, time_step, n_calls)
            except Exception as exc:  # noqa: BLE001
                if not overlap_all:
                    rec.count("placed_nonoverlap_rejected")
                elif refusable:
                    rec.count("refused")
                    rec.count("placed_smaller_input_refused")
                else:
                    raise
                del exc
                rec.case(sig + ("rejected",), True)
                continue
            rec.count("placed_model_runs_checked")
            if not overlap_all:
                rec.violation(f"{mech}:non-overlapping-input-accepted",
                              f"{mname}: an input does not reach the detector {out_shape} but the model ran "
                              f"(placements {case['inputs']})", case, i)
                rec.case(sig + ("accepted",), True)
                continue
            if refusable:
                rec.count("placed_smaller_input_accepted")

            def reference(choice):
                """The model on detector-shaped copies of the oracle placements; choice: label -> (oy, ox)."""
                ref_files = {}
                for label in arrays:
                    oy, ox = choice[label]
                    name = os.path.join(rec.tmp, f"pm_{i}_{label}_placed_{oy}_{ox}.npy")
                    if not os.path.exists(name):
                        np.save(name, oracle_place(arrays[label], out_shape, oy, ox))
                        created.append(name)
                    ref_files[label] = name
                return execute(mname, dspec, state, ref_files, {}, extra, time_step, n_calls)

            labels = list(arrays)
            refs = [reference(dict(zip(labels, combo)))
                    for combo in itertools.product(*(offsets[label] for label in labels))]
            if not any(same_results(got, ref) for ref in refs):
                which = next((k for k, (x, y) in enumerate(zip(got, refs[0])) if not same_results([x], [y])), 0)
                a, b = got[which], refs[0][which]
                rec.violation(f"{mech}:differs-from-run-on-placed-copies",
                              f"{mname}: the run with the files placed by the model differs from the run of the same "
                              f"model on detector-shaped copies holding the placement of every input (offsets "
                              f"{offsets}); result {which}: "
                              f"{first_difference(a.reshape(-1, a.shape[-1]), b.reshape(-1, b.shape[-1])) if a.shape == b.shape else (a.shape, b.shape)}",
                              case, i)
            # ---- did this case *observe* the placement of each input?  (another placement of that input alone,
            # every other input kept, gives another result)
            for label in labels:
                oy, ox = offsets[label][0]
                for other in ((0, 0), (oy + 1, ox), (oy, ox + 1), (oy - 1, ox), (oy, ox - 1)):
                    if other in offsets[label] or not oracle_overlaps(arrays[label].shape, out_shape, *other):
                        continue
                    choice = {l: offsets[l][0] for l in labels}
                    choice[label] = other
                    if not same_results(refs[0], reference(choice)):
                        rec.count(f"placed_observable_{model}_{label}")
                        break
        except Exception as exc:  # noqa: BLE001
            import traceback
            rec.violation(f"{mech}:unexpected-exception",
                          f"{type(exc).__name__}: {str(exc)[:300]} :: {traceback.format_exc()[-700:]}", case, i)
        finally:
            for name in created:
                if os.path.exists(name):
                    os.remove(name)
        rec.case(sig, True, sample=case if sum(a.size for a in arrays.values()) <= 16 else None)


# ====================================================================== staleness
def stale_versions(rng, fmt, n_versions):
    """Arrays of the successive versions and the relation of each to its predecessor."""
    base_shape = rand_shape(rng, 1, 7)
    arrays, relations = [], []
    # 'unit*': values in (0, 1) -- what a quantum-efficiency map, a PRNU map or a PSF kernel holds
    value_kind = rng.choice(["posint3", "unit3"]) if fmt == "text" \
        else rng.choice(["posfloat", "distinct", "posint3", "unit", "unit"])

    def make(shape):
        if value_kind == "posint3":   # three-digit values: same shape => same size in bytes also as text
            return np.array([[rng.randint(100, 999) for _ in range(shape[1])] for _ in range(shape[0])],
                            dtype=np.float64 if fmt != "text" else np.int64)
        if value_kind == "unit3":     # 0.ddd with a non-zero last digit: five characters each
            return np.array([[(10 * rng.randint(10, 99) + rng.randint(1, 9)) / 1000.0 for _ in range(shape[1])]
                             for _ in range(shape[0])], dtype=np.float64)
        if value_kind == "unit":
            return np.array([[rng.uniform(0.01, 0.99) for _ in range(shape[1])] for _ in range(shape[0])],
                            dtype=np.float64)
        return gen_array(rng, shape, value_kind, np.float64)

    shape = base_shape
    for v in range(n_versions):
        if v == 0:
            rel = "first"
        else:
            rel = rng.choice(["same-shape", "same-shape", "different-shape", "same-bytes-other-shape"])
            if rel == "different-shape":
                new = shape
                while new == shape:
                    new = rand_shape(rng, 1, 7)
                shape = new
            elif rel == "same-bytes-other-shape":
                n = shape[0] * shape[1]
                options = [(a, n // a) for a in range(1, n + 1) if n % a == 0 and (a, n // a) != shape]
                if options:
                    shape = rng.choice(options)
                else:
                    rel = "same-shape"
        arr = make(shape)
        while arrays and arr.shape == arrays[-1].shape and np.array_equal(arr, arrays[-1]):
            arr = make(shape)
        arrays.append(arr)
        relations.append(rel)
    return arrays, relations


# How the file is *named* to pyxel.  The same real file can be reached through an absolute name, a name
# relative to the current directory of the process, a name relative to the 'working_directory' option
# (what a YAML configuration with 'working_directory:' gives) or a '~' name; the statement quantifies over
# the path, not over one spelling of it.
NAMINGS = ["absolute", "workdir-relative", "cwd-relative", "workdir-switch",
           "absolute", "workdir-absolute", "workdir-relative", "home-relative"]
# spellings whose stale content is counted but not raised (none: the '~' finding was fixed by 92de2a2)
OBSERVE_ONLY_NAMINGS = set()


# Option 'cache_folder' of pyxel.set_options during a history (None: not set).  'cache_enabled' stays False (its
# default): the file cache is a documented opt-in and what it serves is not judged here.
CACHE_FOLDER_KINDS = [None, None, None, "str-new", "str-existing", "Path-new", "Path-existing"]


class process_dirs:
    """Temporarily change the current directory and/or HOME of this worker process."""

    def __init__(self, cwd=None, home=None):
        self.cwd, self.home = cwd, home

    def __enter__(self):
        self.old_cwd = os.getcwd()
        self.old_home = os.environ.get("HOME")
        if self.cwd:
            os.chdir(self.cwd)
        if self.home:
            os.environ["HOME"] = self.home
        return self

    def __exit__(self, *exc):
        os.chdir(self.old_cwd)
        if self.home:
            if self.old_home is None:
                os.environ.pop("HOME", None)
            else:
                os.environ["HOME"] = self.old_home
        return False


def run_stale(spec, rec):
    import pathlib
    import shutil

    import pyxel
    from pyxel.exposure import Exposure, Readout
    from pyxel.inputs import load_image as in_load_image
    from pyxel.inputs import load_table as in_load_table
    from pyxel.models.charge_collection import fixed_pattern_noise
    from pyxel.models.charge_generation import conversion_with_qe_map, load_charge
    from pyxel.models.photon_collection import load_image, load_psf
    from pyxel.util import load_cropped_and_aligned_image

    for i in range(spec["n"]):
        if not rec.wanted(i):
            continue
        rng = rec.rng(i)
        fmt = ["npy", "fits", "text", "npy"][i % 4]
        naming = NAMINGS[(i // 4 + spec["part"]) % len(NAMINGS)]
        dname = rng.choice(list(DELIMS))
        suffix = {"npy": ".npy", "fits": ".fits", "text": rng.choice([".txt", ".data"])}[fmt]
        n_versions = rng.randint(2, 4)
        arrays, relations = stale_versions(rng, fmt, n_versions)
        rows, cols = rng.randint(1, 6), rng.randint(1, 6)
        out_shape = (rows, cols)
        use_align = rng.random() < 0.4
        min_h = min(a.shape[0] for a in arrays)
        min_w = min(a.shape[1] for a in arrays)
        if use_align:
            align, position = rng.choice(ALIGNS), None
        else:   # an offset at which every version reaches the detector
            align, position = None, (rng.randint(-(min_h - 1), rows - 1), rng.randint(-(min_w - 1), cols - 1))
        place_kw = {"align": align} if align else {"position": position}
        time_scale = rng.choice(TIME_SCALES)
        time_step = rng.choice([1.0, 2.0, 0.5])
        how = rng.choice(["inplace", "rename"])
        det_kind = rng.choice(["ccd", "cmos"])
        dspec = build.default_detector_spec(det_kind, rows, cols)

        # ---- layout on disk (harness side, absolute) and the name handed to pyxel
        root = os.path.join(rec.tmp, f"st_{i}")
        dir_a, dir_b, dir_idle = (os.path.join(root, d) for d in ("a", "b", "idle"))
        sub = rng.choice(["", "", "in", "data/maps"])
        rel = os.path.join(sub, f"st_{i}{suffix}")
        rel_other = os.path.join(sub, f"st_{i}_other{suffix}")
        # content of the detector before a model that *uses* the file (kernel, map) runs
        pre_state = np.array([[rng.uniform(1.0, 100.0) for _ in range(cols)] for _ in range(rows)])
        normalize = rng.random() < 0.5
        for d in (os.path.join(dir_a, sub), os.path.join(dir_b, sub), dir_idle):
            os.makedirs(d, exist_ok=True)
        wd_as_path = rng.random() < 0.4
        dot = rng.random() < 0.3

        def spelled(relative):
            if naming in ("absolute", "workdir-absolute"):
                return os.path.join(dir_a, relative)
            if naming == "cwd-relative":
                return "./" + relative if dot else relative
            if naming == "home-relative":
                return "~/" + relative
            return relative        # relative to the working directory

        def location(v):
            """Directory under which version ``v`` really lives."""
            return dir_b if naming == "workdir-switch" and v % 2 else dir_a

        def working_directory(v):
            wd = {"workdir-relative": dir_a, "workdir-switch": location(v), "workdir-absolute": dir_b}.get(naming)
            return pathlib.Path(wd) if wd and wd_as_path else wd

        name = spelled(rel)
        other = spelled(rel_other)
        arg = as_arg(name, rng)
        case = {"format": fmt if fmt != "text" else f"text-{dname}", "rewrite": how, "det_shape": [rows, cols],
                "align": align, "position": list(position) if position else None, "relations": relations,
                "versions": [a.tolist() for a in arrays], "time_scale": time_scale, "time_step": time_step,
                "naming": naming, "file_name_given": name.replace(rec.tmp, "<tmp>"), "subfolder": sub,
                "file_name_type": type(arg).__name__,
                "working_directory_type": ("Path" if wd_as_path else "str") if working_directory(0) else None}
        layouts = [rand_fits_layout(rng) if fmt == "fits" else None for _ in arrays]
        if fmt == "fits":
            case["fits_layouts"] = layouts
        other_arr = gen_array(rng, rand_shape(rng, 1, 7), "distinct")
        if not use_align:
            other_arr = gen_array(rng, (max(min_h, other_arr.shape[0]), max(min_w, other_arr.shape[1])), "distinct")
        for d in {location(0), location(1)}:
            write_bytes_of(fmt, other_arr, sep=DELIMS[dname], layout=layouts[0])(os.path.join(d, rel_other))
        if naming == "workdir-absolute":
            # same relative name below the working directory, other content: an absolute name must not end there
            write_bytes_of(fmt, other_arr + 1000, sep=DELIMS[dname], layout=layouts[0])(os.path.join(dir_b, rel))

        # ---- the other options of pyxel.set_options in force during the whole history: a folder for the file
        # cache may be chosen (str or Path, existing or not) while the cache itself stays disabled (the default)
        cache_kind = rng.choice(CACHE_FOLDER_KINDS)
        cache_folder = None
        if cache_kind:
            cache_folder = os.path.join(root, "cache")
            if cache_kind.endswith("existing"):
                os.makedirs(cache_folder, exist_ok=True)
            if cache_kind.startswith("Path"):
                cache_folder = pathlib.Path(cache_folder)
        case["options"] = {"cache_enabled": False, "cache_folder": cache_kind}
        rec.observe("stale_cache_folder_kinds", str(cache_kind))

        def offsets_of(arr):
            return oracle_align_offsets(align, arr.shape, out_shape) if align else [position]

        def consumers(wd):
            """name -> (callable returning the array, scale factor)"""
            def c_lcai():
                kw = {"shape": out_shape, "filename": arg}
                if align:
                    kw["align"] = align
                else:
                    kw.update(position_y=position[0], position_x=position[1])
                return np.array(load_cropped_and_aligned_image(**kw))

            def c_model_image():
                det = build.make_detector(dspec)
                det.set_readout(times=[1.0])
                det.time_step = time_step
                load_image(det, image_file=name, time_scale=time_scale, **place_kw)
                return det.photon.array

            def c_model_charge():
                det = build.make_detector(dspec)
                det.set_readout(times=[1.0])
                det.time_step = time_step
                load_charge(det, filename=arg, time_scale=time_scale, **place_kw)
                return det.charge.array

            def c_pipeline():
                kw = dict(place_kw)
                if "position" in kw:
                    kw["position"] = list(kw["position"])
                pspec = {"photon_collection": [{"name": "load_image", "func": FUNC_LOAD_IMAGE, "enabled": True,
                                                "arguments": dict(kw, image_file=name, time_scale=time_scale)}],
                         "readout_electronics": [{"name": "image_writer", "func": "vf.probes.writer", "enabled": True,
                                                  "arguments": {"plan": {"*": ["image"]}, "seed": 1}}]}
                det = build.make_detector(dspec)
                # the route of a YAML file: the running mode carries the working directory
                mode = Exposure(readout=Readout(times=[time_step]), working_directory=str(wd) if wd else None)
                tree = pyxel.run_mode(mode=mode, detector=det, pipeline=build.make_pipeline(pspec))
                return tree_var(tree, "photon")[0]

            return {"load_cropped_and_aligned_image": (c_lcai, 1.0),
                    "model-load_image": (c_model_image, time_step / time_scale),
                    "model-load_charge": (c_model_charge, time_step / time_scale),
                    "pipeline-load_image": (c_pipeline, time_step / time_scale)}

        def file_models():
            """Models of the library that *use* an input file (kernel, map) on the content of the detector:
            name -> callable(file name) returning the bucket the model wrote."""
            def fresh_detector():
                det = build.make_detector(dspec)
                det.set_readout(times=[1.0])
                det.time_step = time_step
                return det

            def m_load_psf(fname):
                det = fresh_detector()
                det.photon.array = pre_state.copy()
                load_psf(det, filename=fname, normalize_kernel=normalize)
                return np.array(det.photon.array)

            def m_fixed_pattern_noise(fname):
                det = fresh_detector()
                det.pixel.array = pre_state.copy()
                fixed_pattern_noise(det, filename=fname, **place_kw)
                return np.array(det.pixel.array)

            def m_qe_map(fname):
                det = fresh_detector()
                det.photon.array = pre_state.copy()
                conversion_with_qe_map(det, filename=fname, binomial_sampling=False, **place_kw)
                return np.array(det.charge.array)

            return {"load_psf": m_load_psf, "fixed_pattern_noise": m_fixed_pattern_noise,
                    "conversion_with_qe_map": m_qe_map}

        # models whose result is  content of the detector x placement of the file  (independent oracle)
        PLACED = {"fixed_pattern_noise", "conversion_with_qe_map"}
        fmodels = file_models()
        refs = {m: [] for m in fmodels}     # per model: result on a never-used copy of every version (or None)

        chosen = ["load_cropped_and_aligned_image", "model-load_image", "model-load_charge"]
        if i % 2 == 0:
            chosen.append("pipeline-load_image")
        mech_class = ("" if naming == "absolute" else f":path-{naming}") + (":cache-folder-set" if cache_kind else "")
        seen_mtimes = set()
        try:
            with process_dirs(cwd=dir_a if naming == "cwd-relative" else dir_idle,
                              home=dir_a if naming == "home-relative" else None), \
                    pyxel.set_options(cache_enabled=False, cache_folder=cache_folder):
                for v, arr in enumerate(arrays):
                    writer = write_bytes_of(fmt, arr, sep=DELIMS[dname], layout=layouts[v])
                    write_version(os.path.join(location(v), rel), writer, how, rec, avoid=seen_mtimes)
                    wd = working_directory(v)
                    cons = consumers(wd)
                    if v:
                        rec.count("stale_rewrites")
                        rec.observe("stale_relations", relations[v])
                    for cname in chosen:
                        fn, factor = cons[cname]
                        with pyxel.set_options(working_directory=wd):
                            got = fn()
                        rec.count("stale_reloads_checked" if v else "stale_first_loads_checked")
                        if v:
                            rec.count(f"stale_reloads_{naming}")
                            rec.observe("stale_path_namings", naming)
                            if cache_kind:
                                rec.count("stale_reloads_cache-folder-set")
                        if matches_any(got, arr, out_shape, offsets_of(arr), factor):
                            continue
                        old = [u for u in range(v) if matches_any(got, arrays[u], out_shape, offsets_of(arrays[u]), factor)]
                        if old and naming in OBSERVE_ONLY_NAMINGS:
                            rec.count(f"stale_content_observed_not_raised_{naming}")
                        elif old:
                            rec.violation("C20:memoised-loader-ignores-file-change" + mech_class,
                                          f"{cname}: file named {naming} ({case['file_name_given']!r}); after rewriting "
                                          f"it ({relations[v]}, {how}) version {v} was expected but the result is the "
                                          f"content of version {old[-1]}", case, i)
                        else:
                            exp = oracle_place(arr, out_shape, *offsets_of(arr)[0]) * factor
                            rec.violation(f"C20:stale:{cname}:wrong-content" + mech_class,
                                          f"version {v} ({relations[v]}): {first_difference(got, exp)}", case, i)
                    # ---- models that use the file: the run on the rewritten path must equal the run of the same
                    # model on a copy of the file's present content under a name never used before (no history)
                    rel_fresh = os.path.join(sub, f"st_{i}_copy{v}{suffix}")
                    writer(os.path.join(location(v), rel_fresh))
                    fresh = spelled(rel_fresh)
                    for mname, fn in fmodels.items():
                        given = arg if mname != "fixed_pattern_noise" else name
                        with pyxel.set_options(working_directory=wd):
                            try:
                                ref = fn(type(given)(fresh))
                            except Exception:  # noqa: BLE001
                                ref = None     # the model refuses this content (e.g. a QE map above 1)
                            try:
                                got = fn(given)
                            except Exception:  # noqa: BLE001
                                if ref is not None:
                                    raise
                                got = None
                        refs[mname].append(ref)
                        if ref is None and got is None:
                            rec.count("stale_model_content_refused")
                            continue
                        rec.count("stale_model_runs_checked")
                        observable = v > 0 and (ref is None or refs[mname][v - 1] is None
                                                or not close(ref, refs[mname][v - 1]))
                        if observable:
                            rec.count(f"stale_model_reloads_{mname}")
                        ok = ref is not None and close(got, ref)
                        if ok and mname in PLACED:
                            rec.count("stale_model_placements_checked")
                            if not any(close(got, pre_state * oracle_place(arr, out_shape, oy, ox))
                                       for oy, ox in offsets_of(arr)):
                                exp = pre_state * oracle_place(arr, out_shape, *offsets_of(arr)[0])
                                rec.violation(f"C20:model-{mname}:bucket-differs" + mech_class,
                                              f"{mname}: bucket != content of the detector x placement of the file: "
                                              f"{first_difference(got, exp)}", case, i)
                            continue
                        if ok:
                            continue
                        old = [u for u in range(v) if refs[mname][u] is not None and close(got, refs[mname][u])]
                        if old:
                            rec.violation(f"C20:model-{mname}:earlier-version-of-file-used" + mech_class,
                                          f"{mname}: file named {naming} ({case['file_name_given']!r}); after rewriting "
                                          f"it ({relations[v]}, {how}) the model gives the result of version "
                                          f"{old[-1]} of the file, not the result it gives on a copy of version {v} "
                                          f"under a new name", case, i)
                        else:
                            rec.violation(f"C20:stale:model-{mname}:differs-from-run-on-fresh-copy" + mech_class,
                                          f"{mname}, version {v} ({relations[v]}): the same content under a new name "
                                          f"gives another result"
                                          + ("" if ref is None else f": {first_difference(got, ref)}"), case, i)
                    with pyxel.set_options(working_directory=wd):
                        # the plain loaders on the rewritten path
                        got = in_load_image(arg)
                        rec.count("stale_plain_loads_checked")
                        if not (np.shape(got) == arr.shape and same_values(got, arr)):
                            rec.violation("C20:stale:inputs.load_image:not-current-content" + mech_class,
                                          f"version {v} ({relations[v]}): shape {np.shape(got)} vs {arr.shape}", case, i)
                        if fmt != "fits":
                            got = in_load_table(arg).to_numpy()
                            if not (got.shape == arr.shape and same_values(got, arr)):
                                rec.violation("C20:stale:inputs.load_table:not-current-content" + mech_class,
                                              f"version {v} ({relations[v]}): shape {got.shape} vs {arr.shape}", case, i)
                        # a second path with the same arguments must not be confused with the first
                        kw = {"shape": out_shape, "filename": other}
                        if align:
                            kw["align"] = align
                        else:
                            kw.update(position_y=position[0], position_x=position[1])
                        got = load_cropped_and_aligned_image(**kw)
                    offs = oracle_align_offsets(align, other_arr.shape, out_shape) if align else [position]
                    if not matches_any(got, other_arr, out_shape, offs, 1.0):
                        rec.violation("C20:stale:other-path:wrong-content" + mech_class,
                                      "a second file loaded with the same arguments returned another content", case, i)
        except Exception as exc:  # noqa: BLE001
            import traceback
            rec.violation("C20:stale:unexpected-exception" + mech_class,
                          f"{type(exc).__name__}: {str(exc)[:300]} :: {traceback.format_exc()[-700:]}", case, i)
        finally:
            pyxel.set_options(working_directory=None, cache_enabled=False, cache_folder=None)
        rec.observe("stale_formats", case["format"])
        rec.observe("stale_rewrite_methods", how)
        rec.case(("stale", i, spec["part"], fmt, relations, how, align, position, naming, sub), True,
                 sample=case if sum(a.size for a in arrays) <= 16 else None)
        shutil.rmtree(root, ignore_errors=True)


# ====================================================================== entry points
def run_shard(spec, rec):
    {"roundtrip": run_roundtrip, "place_exh": run_place_exh, "place_rand": run_place_rand,
     "model": run_model, "placed": run_placed, "stale": run_stale}[spec["kind"]](spec, rec)


EXPECTED_IMAGE_FORMATS = {"npy", "fits", "fits-extension"} | {f"text-{d}" for d in DELIMS}
EXPECTED_TABLE_FORMATS = {"npy", "fits-table"} | {f"text-{d}" for d in DELIMS}


def finalize(counters, sets, tier):
    out = []
    miss = EXPECTED_IMAGE_FORMATS - set(sets.get("rt_formats_load_image", []))
    if miss:
        out.append(f"load_image never observed on formats {sorted(miss)}")
    miss = EXPECTED_TABLE_FORMATS - set(sets.get("rt_formats_load_table", []))
    if miss:
        out.append(f"load_table never observed on formats {sorted(miss)}")
    miss = set(FITS_LAYOUTS) - set(sets.get("rt_fits_layouts", []))
    if miss:
        out.append(f"FITS layouts never read back: {sorted(miss)}")
    miss = set(ALIGNS) - set(sets.get("place_aligns", []))
    if miss:
        out.append(f"alignment keywords never observed: {sorted(miss)}")
    miss = {"smaller", "larger", "mixed", "equal"} - set(sets.get("place_size_relations", []))
    if miss:
        out.append(f"size relations never observed: {sorted(miss)}")
    miss = {"one-row", "one-column", "2d"} - set(sets.get("rt_shape_classes", []))
    if miss:
        out.append(f"round-trip shape classes never observed: {sorted(miss)}")
    miss = {"same-shape", "different-shape"} - set(sets.get("stale_relations", []))
    if miss:
        out.append(f"rewrite relations never observed: {sorted(miss)}")
    miss = set(NAMINGS) - set(sets.get("stale_path_namings", []))
    if miss:
        out.append(f"rewritten files never re-loaded through these spellings of the path: {sorted(miss)}")
    miss = {str(k) for k in CACHE_FOLDER_KINDS} - set(sets.get("stale_cache_folder_kinds", []))
    if miss:
        out.append(f"rewritten files never re-loaded under these settings of the option cache_folder: {sorted(miss)}")
    miss = set(PLACED_MODELS) - set(sets.get("placed_models", []))
    if miss:
        out.append(f"file-placing models never run: {sorted(miss)}")
    want = EXH_BOUND[tier] ** 4
    if counters.get("exh_pairs_done", 0) != want:
        out.append(f"exhaustive placement enumeration incomplete: {counters.get('exh_pairs_done', 0)}/{want} shape pairs")
    return out


def coverage_extra(counters, sets, tier):
    bound = EXH_BOUND[tier]
    return {
        "exhaustive": counters.get("exh_pairs_done", 0) == bound ** 4,
        "exhaustive_subspace": f"fit_into_array: every input shape x output shape up to {bound}x{bound}, every offset "
                               f"from -(size+1) to out+1 on both axes, five alignment keywords x allow_smaller_array on/off",
        "exhaustive_shape_pairs": counters.get("exh_pairs_done", 0),
        "outcomes": {"held": counters.get("place_offset_checked", 0) + counters.get("place_align_checked", 0)
                     - counters.get("violations_raised", 0),
                     "rejected_non_overlapping": counters.get("place_nonoverlap_rejected", 0)
                     + counters.get("model_nonoverlap_rejected", 0),
                     "refused": counters.get("refused", 0),
                     "violation": counters.get("violations_raised", 0)},
        "skipped": ["xlsx tables (not in the statement)", "png/jpg/bmp/tiff images (lossy grayscale conversion)",
                    "remote URLs / fsspec cache (no network)"],
    }


REGISTER = True
LEVEL_TEXT = ("Exploration by runtime monitoring: hundreds (quick) to thousands (thorough) of harness-written files in "
              "every supported text delimiter, NumPy and FITS format are read by the real loaders and compared with "
              "what was written; fit_into_array is enumerated exhaustively (all input shapes x output shapes up to "
              "5x5 quick / 7x7 thorough, all offsets from -(size+1) to out+1, five alignments) against a pixel-by-pixel "
              "placement oracle, random larger placements also through load_cropped_and_aligned_image; the real "
              "load_image / load_charge models run directly and through run_mode on real detectors; files are "
              "rewritten between loads of one process, the path being given absolute, relative to the current directory "
              "and relative to the working_directory option, and after every rewrite the file-using models (load_psf, "
              "fixed_pattern_noise, conversion_with_qe_map) are compared with their run on a fresh copy, part of the histories with a "
              "cache_folder chosen while the cache stays disabled; models placing one or two maps "
              "(fixed_pattern_noise, QE map, persistence densities + capacities, each with its own position / "
              "alignment) are compared with their run on harness-placed copies. FITS images "
              "are written in the primary HDU and in an IMAGE extension. Held = on the executions observed.")
LEVEL_NOTE = ("Trusted: numpy.save, astropy.io.fits writers and Python's repr()/%.17g float formatting used to write "
              "the inputs; the 25-line placement oracle; the alignment convention copied from the documentation "
              "(pixel (0,0) bottom-left). Not driven: same-size rewrites with an unchanged modification time.")

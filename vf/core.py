"""Orchestrator: shards a check over worker subprocesses, aggregates what the monitors
observed, classifies violations against KNOWN_FINDINGS.json, writes the evidence file and
prints the verdict lines.

Exit codes: 0 held (KNOWN-FINDING lines allowed), 1 violation, 2 inconclusive.
"""
from __future__ import annotations

import argparse
import concurrent.futures as cf
import hashlib
import importlib
import json
import os
import pathlib
import subprocess
import sys
import tempfile
import time

VERIF = pathlib.Path(__file__).resolve().parent.parent
PYTHON = os.environ.get("VERIF_PYTHON", "/venv/bin/python")
DEPS = VERIF / ".deps"


def repo_path() -> str:
    return os.environ.get("VERIF_REPO", "/repo")


def ensure_deps() -> None:
    """Offline install of icontract + deal into the git-ignored .deps (idempotent)."""
    import fcntl

    marker = DEPS / ".ok"
    if marker.exists():
        return
    VERIF.joinpath(".deps.lock").touch()
    with open(VERIF / ".deps.lock", "r+") as lock:
        fcntl.flock(lock, fcntl.LOCK_EX)
        if marker.exists():
            return
        DEPS.mkdir(exist_ok=True)
        cmd = [
            PYTHON, "-m", "pip", "install", "-q", "--no-index", "--find-links",
            "/opt/veriftools/wheels", "--target", str(DEPS), "icontract", "deal",
        ]
        res = subprocess.run(cmd, capture_output=True, text=True)
        if res.returncode != 0:
            sys.stderr.write(res.stdout + res.stderr)
            raise SystemExit("setup: cannot install icontract/deal offline")
        marker.write_text("ok")


def repo_state() -> dict:
    repo = repo_path()
    try:
        head = subprocess.run(["git", "-C", repo, "rev-parse", "HEAD"], capture_output=True,
                              text=True).stdout.strip()
        diff = subprocess.run(["git", "-C", repo, "diff", "HEAD", "--", "pyxel"],
                              capture_output=True).stdout
        return {"path": repo, "head": head,
                "diff_sha1": hashlib.sha1(diff).hexdigest() if diff else None}
    except Exception as exc:  # pragma: no cover
        return {"path": repo, "error": repr(exc)}


def worker_env(extra: dict | None = None) -> dict:
    env = dict(os.environ)
    env["PYTHONPATH"] = os.pathsep.join([repo_path(), str(VERIF)])
    env["PYTHONHASHSEED"] = "0"
    env["VERIF_REPO"] = repo_path()
    env["PYTHONWARNINGS"] = "ignore"
    env["PYTHONDONTWRITEBYTECODE"] = "1"
    env.setdefault("NUMBA_CACHE_DIR", "/tmp/verif_numba_cache_unused")
    env["OMP_NUM_THREADS"] = "1"
    env["OPENBLAS_NUM_THREADS"] = "1"
    env["MKL_NUM_THREADS"] = "1"
    env["TQDM_DISABLE"] = "1"
    if extra:
        env.update({k: str(v) for k, v in extra.items()})
    return env


def run_worker(check_id: str, spec: dict, timeout: float) -> dict:
    """One shard = one fresh interpreter importing pyxel from the working tree."""
    with tempfile.TemporaryDirectory(prefix=f"vf_{check_id}_") as tmp:
        spec_file = os.path.join(tmp, "spec.json")
        out_file = os.path.join(tmp, "out.json")
        spec = dict(spec)
        spec["_tmp"] = tmp
        with open(spec_file, "w") as fh:
            json.dump(spec, fh)
        t0 = time.time()
        try:
            res = subprocess.run(
                [PYTHON, "-X", "faulthandler", "-m", "vf.worker", check_id, spec_file, out_file],
                cwd=tmp, env=worker_env(spec.get("env")), capture_output=True, text=True,
                timeout=timeout,
            )
        except subprocess.TimeoutExpired as exc:
            partial = _read_json(out_file + ".partial")
            return {"status": "timeout", "spec": spec, "wall": time.time() - t0,
                    "stderr": (exc.stderr or b"")[-2000:].decode("utf8", "replace")
                    if isinstance(exc.stderr, bytes) else str(exc.stderr)[-2000:],
                    "partial": partial}
        out = _read_json(out_file)
        if out is None:
            return {"status": "died", "returncode": res.returncode, "spec": spec,
                    "wall": time.time() - t0, "stderr": res.stderr[-4000:],
                    "partial": _read_json(out_file + ".partial")}
        out["status"] = "ok"
        out["wall"] = time.time() - t0
        out["returncode"] = res.returncode
        out["stderr_tail"] = res.stderr[-1500:]
        return out


def _read_json(path: str):
    try:
        with open(path) as fh:
            return json.load(fh)
    except Exception:
        return None


def load_known() -> list[dict]:
    path = VERIF / "KNOWN_FINDINGS.json"
    if not path.exists():
        return []
    return json.loads(path.read_text()).get("findings", [])


def main(argv=None) -> int:
    ap = argparse.ArgumentParser()
    ap.add_argument("check")
    ap.add_argument("--tier", default=os.environ.get("VERIF_TIER", "quick"),
                    choices=["quick", "thorough"])
    ap.add_argument("--replay", default=None)
    ap.add_argument("--jobs", type=int, default=int(os.environ.get("VERIF_JOBS", "16")))
    ap.add_argument("--shards", type=int, default=None, help="limit number of shards (debug)")
    args = ap.parse_args(argv)

    check_id = args.check.upper()
    seed = int(os.environ.get("VERIF_SEED", "0"))
    mod = importlib.import_module(f"vf.checks.{check_id.lower()}")
    ensure_deps()
    t0 = time.time()

    if args.replay:
        rep = json.loads(pathlib.Path(args.replay).read_text())
        specs = [rep["spec"]]
    else:
        specs = mod.plan(args.tier, seed)
        if args.shards:
            specs = specs[: args.shards]
    timeout = getattr(mod, "TIMEOUT", {"quick": 600, "thorough": 3600})[args.tier]

    results = []
    with cf.ThreadPoolExecutor(max_workers=args.jobs) as pool:
        futs = [pool.submit(run_worker, check_id, spec, timeout) for spec in specs]
        for fut in futs:
            results.append(fut.result())

    # ---------------------------------------------------------------- aggregate
    evaluations = 0
    sigs: set[str] = set()
    counters: dict[str, int] = {}
    sets: dict[str, set] = {}
    samples: list = []
    violations: list[dict] = []
    inconclusive: list[str] = []
    for res in results:
        body = res if res["status"] == "ok" else (res.get("partial") or {})
        evaluations += body.get("evaluations", 0)
        sigs.update(body.get("sigs", []))
        for k, v in body.get("counters", {}).items():
            counters[k] = counters.get(k, 0) + v
        for k, v in body.get("sets", {}).items():
            sets.setdefault(k, set()).update(v)
        for s in body.get("samples", []):
            if len(samples) < 6:
                samples.append(s)
        violations.extend(body.get("violations", []))
        if res["status"] != "ok":
            handler = getattr(mod, "on_worker_failure", None)
            verdict = handler(res) if handler else None
            if verdict is not None:
                violations.append(verdict)
            else:
                inconclusive.append(
                    f"worker {res['status']} (rc={res.get('returncode')}) shard={res['spec'].get('shard')}"
                    f" stderr={res.get('stderr', '')[-600:]!r}")
        elif body.get("error"):
            inconclusive.append(f"worker error shard={res.get('shard')}: {body['error'][-1500:]}")

    required = getattr(mod, "REQUIRED_COUNTERS", [])
    if not args.replay:
        for name in required:
            if counters.get(name, 0) <= 0:
                inconclusive.append(f"deciding monitor counter '{name}' is zero")
        fin = getattr(mod, "finalize", None)
        if fin:
            inconclusive.extend(fin(counters, {k: sorted(v) for k, v in sets.items()}, args.tier) or [])

    # ---------------------------------------------------------------- classify
    known = [k for k in load_known() if k.get("property") == check_id]
    open_known = {k["mechanism"]: k for k in known if k.get("status") == "known"}
    reported_known: dict[str, dict] = {}
    new_violations: list[dict] = []
    def match_known(mech: str):
        if mech in open_known:
            return mech
        for pat in open_known:  # a trailing '*' in KNOWN_FINDINGS.json matches a mechanism family
            if pat.endswith("*") and mech.startswith(pat[:-1]):
                return pat
        return None

    for v in violations:
        mech = v.get("mechanism", "unclassified")
        hit = match_known(mech)
        if hit is not None:
            reported_known.setdefault(hit, v)
        else:
            new_violations.append(v)

    replay_dir = pathlib.Path(os.environ.get("VERIF_REPLAY_DIR", VERIF / "replays"))
    lines = []
    seen_mech: dict[str, int] = {}
    for v in new_violations:
        mech = v.get("mechanism", "unclassified")
        seen_mech[mech] = seen_mech.get(mech, 0) + 1
        if seen_mech[mech] > 3:   # at most three witnesses per mechanism are written out
            continue
        replay_dir.mkdir(exist_ok=True)
        digest = hashlib.sha1(json.dumps(v, sort_keys=True, default=str).encode()).hexdigest()[:10]
        path = replay_dir / f"{check_id}_{digest}.json"
        path.write_text(json.dumps({"check": check_id, "mechanism": mech, "detail": v.get("detail"),
                                    "spec": v.get("replay_spec"), "case": v.get("case"),
                                    "repo": repo_state()}, indent=1, default=str))
        lines.append(f"VIOLATION property={check_id} replay={path} mechanism={mech} :: "
                     f"{str(v.get('detail'))[:300]}")
    for mech, v in reported_known.items():
        lines.append(f"KNOWN-FINDING: property={check_id} {mech} :: {open_known[mech].get('what_fails', '')}")

    distinct = len(sigs)
    if not args.replay and not new_violations and distinct < 2:
        inconclusive.append("fewer than two distinct non-trivial cases were observed")

    wall = time.time() - t0
    coverage = {
        "evaluations": evaluations,
        "distinct_nontrivial": distinct,
        "rule": getattr(mod, "RULE", ""),
        "samples": samples or ["<none>"],
        "monitor_counters": counters,
        "observed": {k: sorted(v)[:60] for k, v in sets.items()},
        "observed_sizes": {k: len(v) for k, v in sets.items()},
        "shards": len(specs),
        "shard_status": [r["status"] for r in results],
        "known_findings_reproduced": sorted(reported_known),
        "violation_mechanisms": seen_mech,
        "inconclusive_reasons": inconclusive,
    }
    extra_cov = getattr(mod, "coverage_extra", None)
    if extra_cov:
        coverage.update(extra_cov(counters, {k: sorted(v) for k, v in sets.items()}, args.tier) or {})
    verdict = "violated" if new_violations else ("inconclusive" if inconclusive else "held")
    evidence = {
        "property_id": check_id,
        "tier": args.tier,
        "seed": seed,
        "level": getattr(mod, "LEVEL", "exploration"),
        "coverage": coverage,
        "assumptions": getattr(mod, "ASSUMPTIONS", []),
        "wall_s": round(wall, 2),
        "violations": len(new_violations),
        "verdict": verdict,
        "repo": repo_state(),
        "technique": getattr(mod, "TECHNIQUE", ""),
    }
    if not args.replay:
        ev_dir = pathlib.Path(os.environ.get("VERIF_EVIDENCE_DIR", VERIF / "evidence"))
        ev_dir.mkdir(exist_ok=True)
        tmp = ev_dir / f"{check_id}.json.tmp"
        tmp.write_text(json.dumps(evidence, indent=1, default=str))
        os.replace(tmp, ev_dir / f"{check_id}.json")

    for line in lines:
        print(line)
    summary = (f"[{check_id}] tier={args.tier} seed={seed} verdict={verdict} evaluations={evaluations} "
               f"distinct={distinct} violations={len(new_violations)} known={len(reported_known)} "
               f"wall={wall:.1f}s")
    print(summary)
    key_counters = {k: counters[k] for k in sorted(counters)[:40]}
    print(f"[{check_id}] monitors: {json.dumps(key_counters)}")
    if new_violations:
        return 1
    if inconclusive:
        for reason in inconclusive[:10]:
            print(f"INCONCLUSIVE property={check_id} {reason}")
        return 2
    return 0


if __name__ == "__main__":
    sys.exit(main())

"""M2: sys.monitoring call monitor on chosen code objects (independent second witness).

Local PY_START events on the *code objects* of the watched functions: immune to
``from m import f`` aliasing and to references bound before the monitor was installed.
"""
from __future__ import annotations

import sys
import threading

_TOOL = 4  # a free tool id (0..5); 4 is not reserved by debugger/coverage/profiler/optimizer


class CallMonitor:
    def __init__(self):
        self.lock = threading.Lock()
        self.calls: list[tuple] = []
        self.counts: dict[str, int] = {}
        self._targets: dict = {}
        self._active = False

    def watch(self, label: str, func, extract=None) -> None:
        code = getattr(func, "__code__", None) or func.__wrapped__.__code__
        self._targets[code] = (label, extract)

    def start(self) -> None:
        mon = sys.monitoring
        try:
            mon.use_tool_id(_TOOL, "vf.mon_calls")
        except ValueError:
            pass
        mon.register_callback(_TOOL, mon.events.PY_START, self._on_start)
        for code in self._targets:
            mon.set_local_events(_TOOL, code, mon.events.PY_START)
        self._active = True

    def stop(self) -> None:
        mon = sys.monitoring
        if not self._active:
            return
        for code in self._targets:
            mon.set_local_events(_TOOL, code, 0)
        mon.register_callback(_TOOL, mon.events.PY_START, None)
        try:
            mon.free_tool_id(_TOOL)
        except Exception:  # noqa: BLE001
            pass
        self._active = False

    def reset(self) -> None:
        with self.lock:
            self.calls.clear()
            self.counts.clear()

    def _on_start(self, code, offset):
        target = self._targets.get(code)
        if target is None:
            return
        label, extract = target
        info = None
        if extract is not None:
            try:
                frame = sys._getframe(1)
                info = extract(frame.f_locals)
            except Exception as exc:  # noqa: BLE001
                info = f"<extract failed {exc!r}>"
        with self.lock:
            self.counts[label] = self.counts.get(label, 0) + 1
            self.calls.append((label, info, threading.get_ident()))

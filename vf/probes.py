"""Probe models (M1) and the shared, thread-safe event trace.

The functions here are referenced by generated pipelines exactly like user models
(``func: vf.probes.trace``) and are therefore called by the real ModelFunction.__call__.
Events get a sequence number from one monotonic counter under a lock.  When the environment
variable VF_TRACE_FILE is set the events are also appended (O_APPEND, one JSON line each) to
that file so that dask *process* workers can be observed, too.
"""
from __future__ import annotations

import copy
import itertools
import json
import os
import threading
import time

import numpy as np

_LOCK = threading.Lock()
_SEQ = itertools.count()
EVENTS: list[dict] = []

BUCKETS = ("photon", "charge", "pixel", "signal", "image")


def reset() -> None:
    global _SEQ
    with _LOCK:
        EVENTS.clear()
        _SEQ = itertools.count()


def events() -> list[dict]:
    with _LOCK:
        return list(EVENTS)


def emit(ev: dict) -> dict:
    with _LOCK:
        ev["seq"] = next(_SEQ)
        ev["pid"] = os.getpid()
        ev["tid"] = threading.get_ident()
        EVENTS.append(ev)
    path = os.environ.get("VF_TRACE_FILE")
    if path:
        line = json.dumps({k: v for k, v in ev.items() if k != "buckets"}, default=_js) + "\n"
        fd = os.open(path, os.O_WRONLY | os.O_APPEND | os.O_CREAT, 0o644)
        try:
            os.write(fd, line.encode())
        finally:
            os.close(fd)
    return ev


def _js(o):
    if isinstance(o, np.generic):
        return o.item()
    if isinstance(o, np.ndarray):
        return o.tolist()
    return repr(o)


def read_trace_file(path: str) -> list[dict]:
    out = []
    if os.path.exists(path):
        with open(path) as fh:
            for line in fh:
                line = line.strip()
                if line:
                    out.append(json.loads(line))
    return out


def clock(detector) -> dict:
    rp = detector.readout_properties
    return {
        "step": int(detector.pipeline_count),
        "time": float(detector.time),
        "time_step": float(detector.time_step),
        "absolute_time": float(detector.absolute_time),
        "start_time": float(detector.start_time),
        "is_first": bool(detector.is_first_readout),
        "is_last": bool(detector.is_last_readout),
        "num_steps": int(detector.num_steps),
        "non_destructive": bool(detector.non_destructive_readout),
        "rp_times": [float(t) for t in rp.times],
    }


def bucket_state(detector, name: str):
    """None when the container is empty (decided through the public API), else a copy."""
    obj = getattr(detector, name)
    if name == "charge":
        return np.array(obj.array, copy=True)
    try:
        if name == "photon" and obj.ndim == 3:
            return np.array(obj.array_3d.values, copy=True)
        return np.array(obj.array, copy=True)
    except ValueError:
        return None


def public_empty(detector, name: str) -> bool | str:
    """Emptiness decided through the public API only (read must raise ValueError)."""
    obj = getattr(detector, name)
    if name == "charge":
        return bool(np.all(obj.array == 0)) and bool(obj.frame.empty)
    try:
        if name == "photon" and getattr(obj, "ndim", 2) == 3:
            obj.array_3d  # noqa: B018
        else:
            obj.array  # noqa: B018
    except ValueError:
        return True
    except Exception as exc:  # noqa: BLE001
        return f"read raised {type(exc).__name__}"
    return False


def snapshot(detector) -> dict:
    snap = {}
    for name in BUCKETS:
        snap[name] = bucket_state(detector, name)
    snap["public_empty"] = {name: public_empty(detector, name) for name in BUCKETS}
    try:
        # scene_empty: the root node only (what DataTree.is_empty reports; C18 compares it with the stored file);
        # scene_empty_deep: no node of the subtree holds anything (sources live in the children /list/<n>)
        snap["scene_empty"] = bool(detector.scene.data.is_empty)
        snap["scene_empty_deep"] = all(bool(node.is_empty) for node in detector.scene.data.subtree)
    except Exception as exc:  # noqa: BLE001
        snap["scene_empty"] = f"error {exc!r}"
    try:
        snap["scene_tree"] = detector.scene.data.copy(deep=True)
    except Exception as exc:  # noqa: BLE001
        snap["scene_tree"] = None
    try:
        snap["data_tree"] = detector.data.copy(deep=True) if detector._data is not None else None
    except Exception as exc:  # noqa: BLE001
        snap["data_tree"] = None
    try:
        snap["data_empty"] = bool(detector.data.is_empty)
    except Exception as exc:  # noqa: BLE001
        snap["data_empty"] = f"error {exc!r}"
    return snap


def trace(detector, **kwargs) -> None:
    """Record who was called with what and when; never touches the detector."""
    ev = {
        "kind": "call",
        "model": detector.current_running_model_name,
        "det": id(detector),
        "kwargs": copy.deepcopy(kwargs),
    }
    keep(detector)
    ev.update(clock(detector))
    if kwargs.get("snap"):
        ev["buckets"] = snapshot(detector)
    emit(ev)
    delay = kwargs.get("sleep")
    if delay:
        time.sleep(float(delay))


def gen_array(shape, dtype, key) -> np.ndarray:
    """Deterministic pseudo-random content for (key) -- used by writers and by oracles."""
    rng = np.random.default_rng([abs(hash(str(k))) % (2**32) if not isinstance(k, int) else k for k in key])
    dt = np.dtype(dtype)
    if dt.kind == "u":
        # full range: values above 2**53 reveal any detour through floating point
        return rng.integers(0, np.iinfo(dt).max, size=shape, endpoint=True, dtype=dt)
    return (rng.random(size=shape) * 1000.0 + 1.0).astype(dt)


_BIDX = {"photon": 1, "charge": 2, "pixel": 3, "signal": 4, "image": 5}


def _do_write(detector, names, seed, dtypes, step) -> None:
    shape = detector.geometry.shape
    for name in names:
        if name == "photon3d":
            import xarray as xr
            nw = 3
            arr = gen_array((nw, *shape), dtypes.get("photon", "float64"), (seed, step, 1))
            detector.photon.array_3d = xr.DataArray(
                arr, dims=["wavelength", "y", "x"], coords={"wavelength": [500.0, 600.0, 700.0]})
            continue
        if name == "photon3dc":
            # a cube that carries its own y/x coordinates (pixel centres, rows descending): the setter accepts it
            import xarray as xr
            arr = gen_array((3, *shape), dtypes.get("photon", "float64"), (seed, step, 1))
            detector.photon.array_3d = xr.DataArray(
                arr, dims=["wavelength", "y", "x"],
                coords={"wavelength": [500.0, 600.0, 700.0], "y": (np.arange(shape[0])[::-1] * 18.0 + 9.0),
                        "x": np.arange(shape[1]) * 7.0 + 3.0})
            continue
        if name == "scene":
            continue
        dt = dtypes.get(name, "uint16" if name == "image" else "float64")
        arr = gen_array(shape, dt, (seed, step, _BIDX[name]))
        if name == "charge":
            detector.charge.add_charge_array(arr.astype(float))
        else:
            getattr(detector, name).array = arr


def _plan_names(kwargs, step):
    plan = kwargs.get("plan") or {}
    return plan.get(str(step), plan.get("*", []))


def writer(detector, **kwargs) -> None:
    """Write the buckets named by plan[str(step)] (a list of bucket names; "*" = every step).

    Content: gen_array(shape, dtype, (seed, step, bucket)).  'charge' is added (the charge API
    only adds), everything else is assigned.  The event records exactly the received kwargs.
    """
    step = int(detector.pipeline_count)
    names = _plan_names(kwargs, step)
    ev = {"kind": "write", "model": detector.current_running_model_name, "det": id(detector),
          "kwargs": copy.deepcopy(kwargs), "written": list(names)}
    keep(detector)
    ev.update(clock(detector))
    emit(ev)
    _do_write(detector, names, kwargs.get("seed", 0), kwargs.get("dtypes") or {}, step)


_KEEP: list = []  # strong references: id(detector) must stay unique within one case


def keep(detector) -> None:
    _KEEP.append(detector)


_orig_reset = reset


def reset() -> None:  # noqa: F811
    _orig_reset()
    _KEEP.clear()


def make_source(seed: int = 0):
    """A minimal valid scene source (xarray Dataset) with content derived from seed."""
    import xarray as xr
    rng = np.random.default_rng(seed)
    nref, nw = 2, 3
    return xr.Dataset(
        {"x": ("ref", rng.random(nref) * 10), "y": ("ref", rng.random(nref) * 10),
         "weight": ("ref", rng.random(nref) + 10), "flux": (("ref", "wavelength"), rng.random((nref, nw)))},
        coords={"ref": np.arange(nref), "wavelength": [500.0, 600.0, 700.0]},
        attrs={"right_ascension": "56.75 deg", "declination": "24.1167 deg", "fov_radius": "0.5 deg"},
    )


def writer2(detector, **kwargs) -> None:
    """Like writer, plus 'scene' (adds a source), 'data' (adds a processed-data array),
    'pixel+' (adds to the pixel array in place instead of assigning) and 'clusters' (adds charge
    through the cluster interface)."""
    import xarray as xr
    seed = kwargs.get("seed", 0)
    step = int(detector.pipeline_count)
    names = _plan_names(kwargs, step)
    ev = {"kind": "write", "model": detector.current_running_model_name, "det": id(detector),
          "kwargs": copy.deepcopy(kwargs), "written": list(names)}
    keep(detector)
    ev.update(clock(detector))
    emit(ev)
    rest = [n for n in names if n not in ("scene", "data", "pixel+", "pixel@", "pixel=charge", "clusters")]
    _do_write(detector, rest, seed, kwargs.get("dtypes") or {}, step)
    if "scene" in names:
        detector.scene.add_source(make_source(seed * 1000 + step))
    if "data" in names:
        arr = gen_array(detector.geometry.shape, "float64", (seed, step, 9))
        detector.data[f"/probe/step{step}"] = xr.DataArray(arr, dims=["y", "x"])
        # metadata-only content: attributes on the parent group and a group that carries attributes but no variable
        detector.data["/probe"].attrs["last_step"] = step
        detector.data[f"/meta/step{step}"] = xr.DataTree(xr.Dataset(attrs={"seed": int(seed), "step": step}))
    if "clusters" in names:
        # charge through the cluster interface (as the cosmic-ray models do), inside the sensitive area
        rows, cols = detector.geometry.shape
        rng = np.random.default_rng([seed, step, 77])
        n = 2
        detector.charge.add_charge(
            particle_type="e", particles_per_cluster=rng.integers(1, 50, n).astype(float),
            init_energy=np.zeros(n),
            init_ver_position=rng.random(n) * rows * detector.geometry.pixel_vert_size,
            init_hor_position=rng.random(n) * cols * detector.geometry.pixel_horz_size,
            init_z_position=np.zeros(n), init_ver_velocity=np.zeros(n), init_hor_velocity=np.zeros(n),
            init_z_velocity=np.zeros(n))
    if "pixel=charge" in names:
        # hands the array returned by the charge container over to the pixel container (no copy), as a
        # user-written collection model may do: emptying 'charge' later must not wipe 'pixel'
        detector.pixel.array = detector.charge.array
    if "pixel@" in names:
        # purely in place, through the getter only (no setter call): np.add(..., out=pixel.array)
        arr = gen_array(detector.geometry.shape, "float64", (seed, step, 3))
        try:
            target = detector.pixel.array
            np.add(target, arr.astype(target.dtype), out=target)
        except ValueError:
            detector.pixel.array = arr
    if "pixel+" in names:
        arr = gen_array(detector.geometry.shape, "float64", (seed, step, 3))
        try:
            detector.pixel.array += arr  # in place, like pyxel's own simple_collection
        except ValueError:
            detector.pixel.array = arr

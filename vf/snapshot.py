"""M8: deep structural snapshot / diff of arbitrary object graphs (detector, pipeline, readout).

snap(obj) -> {path: leaf}; leaves are immutable summaries (type name + value or content hash).
No pyxel imports: the walker only uses __dict__/__slots__, mappings, sequences, numpy, pandas
and xarray public conversions.
"""
from __future__ import annotations

import hashlib
import numbers

import numpy as np

SKIP_ATTRS = {"_log", "_func", "_numbytes", "current_running_model_name"}


def _h(b: bytes) -> str:
    return hashlib.sha1(b).hexdigest()[:12]


def _leaf_array(a: np.ndarray) -> str:
    a = np.ascontiguousarray(a)
    if a.dtype == object:
        return f"ndarray(object,{a.shape},{_h(repr(a.tolist()).encode())})"
    return f"ndarray({a.dtype},{a.shape},{_h(a.tobytes())})"


def snap(obj, path: str = "", out: dict | None = None, seen: dict | None = None, skip=SKIP_ATTRS, depth=0) -> dict:
    if out is None:
        out = {}
    if seen is None:
        seen = {}
    if depth > 40:
        out[path] = "<too deep>"
        return out
    if obj is None or isinstance(obj, (bool, str, bytes, numbers.Number)):
        out[path] = f"{type(obj).__name__}:{obj!r}"
        return out
    if isinstance(obj, np.generic):
        out[path] = f"{type(obj).__name__}:{obj.item()!r}"
        return out
    oid = id(obj)
    # identity is tracked only for objects that live as long as the graph: temporaries created while
    # walking (datasets extracted from a tree) and immutable tuples (CPython shares `()`) would otherwise
    # produce spurious "<ref ...>" leaves when an id is recycled
    track = not isinstance(obj, tuple)
    if track and oid in seen:
        out[path] = f"<ref {seen[oid]}>"
        return out
    if track:
        seen[oid] = path
    if isinstance(obj, np.ndarray):
        out[path] = _leaf_array(obj)
        return out
    mod = type(obj).__module__ or ""
    if mod.startswith("xarray"):
        try:
            import xarray as xr

            def _dataset(ds, where):
                for name in ds.variables:
                    v = ds[name]
                    out[f"{where}/{name}"] = f"{v.dims}:{_leaf_array(np.asarray(v.values))}"
                out[where + "/<attrs>"] = repr(sorted((k, repr(v)) for k, v in ds.attrs.items()))

            if isinstance(obj, xr.DataTree):
                out[path + "/<tree>"] = "DataTree:" + ",".join(sorted(obj.groups))
                for g in obj.groups:
                    node = obj[g] if g != "/" else obj
                    _dataset(node.to_dataset(inherit=False), f"{path}{g}")
                return out
            if isinstance(obj, xr.Dataset):
                _dataset(obj, path)
                return out
            if isinstance(obj, xr.DataArray):
                out[path] = f"DataArray{obj.dims}:{_leaf_array(np.asarray(obj.values))}"
                for c in obj.coords:
                    out[f"{path}/coord:{c}"] = _leaf_array(np.asarray(obj.coords[c].values))
                return out
        except Exception as exc:  # noqa: BLE001
            out[path] = f"<xarray unreadable {exc!r}>"
            return out
    if mod.startswith("pandas"):
        try:
            out[path] = f"{type(obj).__name__}:{list(getattr(obj, 'columns', []))}:{_h(obj.to_csv().encode())}"
        except Exception as exc:  # noqa: BLE001
            out[path] = f"<pandas unreadable {exc!r}>"
        return out
    if isinstance(obj, dict) or hasattr(obj, "keys") and hasattr(obj, "__getitem__") and not hasattr(obj, "__dict__"):
        out[path + "/<keys>"] = repr(list(obj.keys()))
        for k in obj.keys():
            snap(obj[k], f"{path}[{k!r}]", out, seen, skip, depth + 1)
        return out
    if isinstance(obj, (list, tuple)):
        out[path + "/<len>"] = f"{type(obj).__name__}:{len(obj)}"
        for i, v in enumerate(obj):
            snap(v, f"{path}[{i}]", out, seen, skip, depth + 1)
        return out
    if isinstance(obj, (set, frozenset)):
        out[path] = f"set:{sorted(map(repr, obj))}"
        return out
    if callable(obj) and not hasattr(obj, "__dict__"):
        out[path] = f"<callable {getattr(obj, '__qualname__', type(obj).__name__)}>"
        return out
    attrs = {}
    if hasattr(obj, "__dict__"):
        attrs.update(vars(obj))
    for slot in getattr(type(obj), "__slots__", ()) or ():
        if hasattr(obj, slot):
            attrs[slot] = getattr(obj, slot)
    if not attrs:
        out[path] = f"{type(obj).__name__}:{obj!r}"[:200]
        return out
    out[path + "/<type>"] = type(obj).__name__
    out[path + "/<attrs>"] = repr(sorted(k for k in attrs if k not in skip))
    for k in sorted(attrs):
        if k in skip:
            continue
        if mod.startswith("logging") or type(attrs[k]).__module__.startswith("logging") or type(attrs[k]).__name__ in ("RLock", "lock", "Lock"):
            continue
        snap(attrs[k], f"{path}.{k}", out, seen, skip, depth + 1)
    return out


def diff(a: dict, b: dict) -> list[str]:
    out = []
    for k in sorted(set(a) | set(b)):
        if a.get(k, "<absent>") != b.get(k, "<absent>"):
            out.append(f"{k}: {a.get(k, '<absent>')} -> {b.get(k, '<absent>')}")
    return out

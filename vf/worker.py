"""Worker entry point: python -m vf.worker <CHECK> <spec.json> <out.json>.

Runs one shard of a check inside a fresh interpreter that imports pyxel from the working
tree named by VERIF_REPO, and writes what the monitors observed as JSON.
"""
from __future__ import annotations

import hashlib
import importlib
import json
import os
import random
import sys
import time
import traceback


class Recorder:
    """Collects cases, monitor counters, observed value sets and violations of one shard."""

    def __init__(self, spec: dict, out_file: str):
        self.spec = spec
        self.out_file = out_file
        self.evaluations = 0
        self.sigs: set[str] = set()
        self.counters: dict[str, int] = {}
        self.sets: dict[str, set] = {}
        self.samples: list = []
        self.violations: list[dict] = []
        self.error: str | None = None
        self._last_flush = time.time()
        self.tmp: str = spec.get("_tmp", os.getcwd())

    # -- cases
    def case(self, sig, nontrivial: bool = True, sample=None) -> None:
        self.evaluations += 1
        if nontrivial:
            digest = hashlib.sha1(json.dumps(sig, sort_keys=True, default=str).encode()).hexdigest()[:16]
            self.sigs.add(digest)
        if sample is not None and len(self.samples) < 2:
            self.samples.append(sample)
        if time.time() - self._last_flush > 5:
            self.flush(partial=True)

    def count(self, name: str, n: int = 1) -> None:
        self.counters[name] = self.counters.get(name, 0) + n

    def observe(self, name: str, value) -> None:
        s = self.sets.setdefault(name, set())
        if len(s) < 5000:
            s.add(value if isinstance(value, (str, int, float, bool)) else json.dumps(value, default=str))

    def violation(self, mechanism: str, detail: str, case=None, index=None) -> None:
        self.count("violations_raised")
        if sum(1 for v in self.violations if v["mechanism"] == mechanism) >= 5:
            return
        rspec = {k: v for k, v in self.spec.items() if not k.startswith("_")}
        if index is not None:
            rspec["only"] = index
        self.violations.append({"mechanism": mechanism, "detail": str(detail)[:2000],
                                "case": case, "replay_spec": rspec})

    # -- per-case RNG: independent of other cases so that a replay needs only the index
    def rng(self, index) -> random.Random:
        return random.Random(f"{self.spec.get('seed', 0)}:{self.spec.get('shard', 0)}:{self.spec.get('kind', '')}:{index}")

    def wanted(self, index) -> bool:
        only = self.spec.get("only")
        return only is None or only == index

    def flush(self, partial: bool = False) -> None:
        self._last_flush = time.time()
        body = {
            "shard": self.spec.get("shard"),
            "evaluations": self.evaluations,
            "sigs": sorted(self.sigs),
            "counters": self.counters,
            "sets": {k: sorted(v, key=str) for k, v in self.sets.items()},
            "samples": self.samples,
            "violations": self.violations,
            "error": self.error,
        }
        path = self.out_file + (".partial" if partial else "")
        with open(path + ".tmp", "w") as fh:
            json.dump(body, fh, default=str)
        os.replace(path + ".tmp", path)


def assert_pyxel_from_repo() -> int:
    """Every imported pyxel module must come from VERIF_REPO (the editable finder would
    otherwise silently serve missing sub-packages from /repo)."""
    root = os.path.realpath(os.environ.get("VERIF_REPO", "/repo")) + os.sep
    n = 0
    for name, mod in list(sys.modules.items()):
        if name == "pyxel" or name.startswith("pyxel."):
            f = getattr(mod, "__file__", None)
            if f:
                n += 1
                if not os.path.realpath(f).startswith(root):
                    raise RuntimeError(f"module {name} imported from {f}, not from {root}")
    return n


def main() -> int:
    check_id, spec_file, out_file = sys.argv[1:4]
    with open(spec_file) as fh:
        spec = json.load(fh)
    deps = os.path.join(os.path.dirname(os.path.dirname(os.path.abspath(__file__))), ".deps")
    if os.path.isdir(deps) and deps not in sys.path:
        sys.path.append(deps)  # appended: its typing_extensions must not shadow the venv's
    rec = Recorder(spec, out_file)
    try:
        mod = importlib.import_module(f"vf.checks.{check_id.lower()}")
        mod.run_shard(spec, rec)
        rec.count("pyxel_modules_from_repo", assert_pyxel_from_repo())
    except BaseException:  # noqa: BLE001 - reported as 'error' => inconclusive
        rec.error = traceback.format_exc()
    rec.flush()
    sys.stdout.flush()
    os._exit(0)  # dask / pygmo threads must not keep the worker alive


if __name__ == "__main__":
    main()
